"""C11 - name resolution order and evaluation environment (R11.1 .. R11.7)."""
import ast

from ..core import (
    AnalysisError,
    obl,
    unparse,
    short,
    dotted,
    is_str_const,
    is_self_attr,
    walk_local,
    calls_in,
    block_raises,
    strip_docstring,
)
from ..cfg import cfg_of

EXPLANATION = (
    "The lookup order data > built-ins > caller locals > caller globals > extra_namespace is fixed by four "
    "list-building expressions and two loops. A small abstract evaluation of list shapes ([a, b], xs + [y], "
    "[{}] + list(xs)) decides the order for all 2^5 scope subsets at once, because first-match over a list "
    "depends only on the list order. Rules: R11.1 scope list construction (capture -> [locals, globals]; "
    "with_outer_namespace appends; design_matrices applies both in order), R11.2 built-ins before user names "
    "in Call.set_type, R11.3 VarLookupDict first match wins (forward iteration, return at first hit, only "
    "KeyError swallowed, KeyError after the loop), R11.4 data first for arguments only and getattr chain for "
    "dotted callees (symbolic evaluation of get_function_from_module for 1..5 name parts), R11.5 no silent "
    "default on the resolution path, R11.6 frame arithmetic of Environment.capture and its single call site "
    "with reference=1 directly in design_matrices, R11.7 the captured environment is the one handed down to "
    "every evaluation and stored for prediction."
    " R11.8 the used-variables extractor finds every data column a call mentions (C09's R9.4): a missed name is cut from the frame and resolves in the environment instead."
    " R11.9 only the registered writers write the registries TRANSFORMS / ENCODINGS (C07's R7.3 restricted to them)."
)
ASSUMPTIONS = [
    "Python: list + list concatenates in order; for-loops iterate lists front to back; inspect.currentframe()/f_back semantics",
    "user-provided namespaces behave like dicts (KeyError for a missing key)",
]


def run(prog, rep, tier):
    r11_1(prog, rep)
    r11_2(prog, rep)
    r11_3(prog, rep)
    r11_5(prog, rep)
    r11_4(prog, rep)
    r11_6(prog, rep)
    r11_7(prog, rep)
    # "looked up first among the data-frame columns": the frame the lookup sees is the frame cut down to the columns the
    # formula is found to use - a name the extractor misses is not in that frame and silently resolves in the environment
    # (C09's R9.4: holder and visitor coverage of var_names), reported here as R11.8
    from . import C09
    from ..core import reuse_rule
    reuse_rule(rep, C09.r9_4, "R11.8", prog)
    rep.floor("R11.8", 12)
    # "formulae's built-in names": exactly the names of the two registries as written in the source, plus what the user registers
    # through the documented registration call - nothing else in the package writes TRANSFORMS / ENCODINGS (a class that
    # registers itself on definition would turn every user Encoding subclass into a built-in name that beats the caller's
    # scopes).  C07's R7.3 (writers of long-lived state), reported here as R11.9
    from . import C07
    from .. import predpath
    reuse_rule(rep, C07.r7_3, "R11.9", prog, predpath.get(prog),
               keep=lambda it: any(t in it.get("construct", "") for t in ("TRANSFORMS", "ENCODINGS")))
    rep.floor("R11.9", 2)
    rep.floor("R11.1", 5)
    rep.floor("R11.3", 6)
    rep.floor("R11.4", 6)
    rep.floor("R11.6", 6)
    rep.floor("R11.7", 6)


def shape(node, env):
    """abstract list shape: list of item strings; '*x*' denotes 'all items of x in order'."""
    if isinstance(node, ast.List):
        out = []
        for e in node.elts:
            if isinstance(e, ast.Starred):
                out += shape(e.value, env)
            else:
                out.append(unparse(e))
        return out
    if isinstance(node, ast.BinOp) and isinstance(node.op, ast.Add):
        return shape(node.left, env) + shape(node.right, env)
    if isinstance(node, ast.Call) and dotted(node.func) in ("list", "tuple") and len(node.args) == 1:
        return shape(node.args[0], env)
    if isinstance(node, ast.Name) and node.id in env:
        return list(env[node.id])
    if isinstance(node, (ast.Name, ast.Attribute)):
        return [f"*{unparse(node)}*"]
    return None


def _rets(fn):
    return [n for n in walk_local(fn.node) if isinstance(n, ast.Return)]


def r11_1(prog, rep):
    cap = prog.fn("environment.Environment.capture")
    cons = [r for r in _rets(cap) if isinstance(r.value, ast.Call) and dotted(r.value.func) == cap.params[0]]
    ok = len(cons) == 1
    sh = None
    if ok:
        sh = shape(cons[0].value.args[0], {}) if cons[0].value.args else None
        frame_var = None
        ok = sh is not None and len(sh) == 2 and sh[0].endswith(".f_locals") and sh[1].endswith(".f_globals") \
            and sh[0].split(".")[0] == sh[1].split(".")[0]
    obl(rep, cap, cons[0] if cons else cap.node, "R11.1", ok,
        "Environment.capture builds [frame.f_locals, frame.f_globals] (locals before globals)", str(sh),
        f"capture builds the namespace list {sh}: caller locals no longer shadow caller globals")
    init = prog.fn("environment.Environment.__init__")
    st = [s for s in walk_local(init.node) if isinstance(s, ast.Assign) and is_self_attr(s.targets[0], "_namespaces")]
    sh = shape(st[0].value, {}) if st else None
    obl(rep, init, st[0] if st else init.node, "R11.1", sh == [f"*{init.params[1]}*"],
        "Environment.__init__ keeps the namespaces in the given order", str(sh), f"Environment stores {sh}")
    won = prog.fn("environment.Environment.with_outer_namespace")
    rets = _rets(won)
    ok = len(rets) == 1 and isinstance(rets[0].value, ast.Call) and len(rets[0].value.args) == 1
    sh = shape(rets[0].value.args[0], {}) if ok else None
    ok = ok and sh == ["*self._namespaces*", won.params[1]] and unparse(rets[0].value.func) in ("self.__class__", "type(self)", "Environment")
    obl(rep, won, rets[0] if rets else won.node, "R11.1", ok,
        "with_outer_namespace appends the outer namespace after the existing ones", str(sh),
        f"with_outer_namespace builds {sh}: the outer namespace would be consulted before inner ones")
    ns = prog.fn("environment.Environment.namespace")
    rets = _rets(ns)
    ok = len(rets) == 1 and unparse(rets[0].value) == "VarLookupDict(self._namespaces)"
    obl(rep, ns, rets[0] if rets else ns.node, "R11.1", ok, "Environment.namespace looks up in self._namespaces, order unchanged",
        unparse(rets[0].value) if rets else "")
    # design_matrices: the environment handed to the design is capture(env, reference=1) extended by extra_namespace (or {})
    dm = prog.fn("matrices.design_matrices")
    from . import C09
    from .. import symexec as SX
    envs = set()
    try:
        O = C09.policy_outcomes(prog, dm)
        for e in O["pass"]["ex"].effects:
            if e[0] == "watch" and len(e[1][1]) >= 3:
                envs.add(SX.render(e[1][1][2]))
    except AnalysisError as e:
        rep.defer(f"R11.1: {e}")
    ok = len(envs) == 1
    shown = next(iter(envs)) if envs else ""
    if ok:
        try:
            v = ast.parse(shown, mode="eval").body
        except SyntaxError:
            v = None
        ok = isinstance(v, ast.Call) and isinstance(v.func, ast.Attribute) and v.func.attr == "with_outer_namespace" and len(v.args) == 1 \
            and isinstance(v.func.value, ast.Call) and dotted(v.func.value.func) == "Environment.capture"
        if ok:
            extra = unparse(v.args[0])
            p_extra = dm.params[4] if len(dm.params) > 4 else "extra_namespace"
            ok = extra in (f"{p_extra} or {{}}", p_extra, f"{{}} if {p_extra} is None else {p_extra}", f"{p_extra} if {p_extra} is not None else {{}}",
                           f"{{}} if not {p_extra} else {p_extra}", f"{p_extra} if {p_extra} else {{}}")
    obl(rep, dm, dm.node, "R11.1", ok,
        "design_matrices: env = capture(...); env = env.with_outer_namespace(extra_namespace) => [locals, globals, extra]",
        shown[:120], f"the design is built with the environment `{shown[:160]}`: not [locals, globals, extra_namespace]")
    obl(rep, dm, dm.node, "R11.1", ok, "extra_namespace is only defaulted to {} when absent", nontrivial=False)


def r11_2(prog, rep):
    st = prog.fn("terms.call.Call.set_type")
    envs = [s for s in walk_local(st.node) if isinstance(s, ast.Assign) and isinstance(s.value, ast.Call) and dotted(s.value.func) == "Environment"]
    ok = len(envs) == 1
    tvar = unparse(envs[0].targets[0]) if ok else None
    sh = None
    if ok:
        a = envs[0].value.args[0]
        ok = isinstance(a, ast.List) and len(a.elts) == 1
        sh = None
        if ok:
            d0 = a.elts[0]
            if isinstance(d0, ast.Name):
                # a local bound once to the merged table
                ds_ = [s_ for s_ in walk_local(st.node) if isinstance(s_, ast.Assign) and len(s_.targets) == 1 and unparse(s_.targets[0]) == d0.id]
                uses_ = [n for n in ast.walk(st.node) if isinstance(n, ast.Name) and n.id == d0.id]
                if len(ds_) == 1 and len(uses_) == 2:
                    d0 = ds_[0].value
            # the merged table of built-ins: {**A, **B}, A | B, dict(A, **B), {**A} | B
            def merged(e):
                if isinstance(e, ast.Dict) and all(k is None for k in e.keys):
                    out = []
                    for v in e.values:
                        m_ = merged(v)
                        out += m_ if m_ is not None else [unparse(v)]
                    return out
                if isinstance(e, ast.BinOp) and isinstance(e.op, ast.BitOr):
                    l_, r_ = merged(e.left), merged(e.right)
                    return (l_ if l_ is not None else [unparse(e.left)]) + (r_ if r_ is not None else [unparse(e.right)])
                if isinstance(e, ast.Call) and dotted(e.func) == "dict" and len(e.args) == 1 and all(k.arg is None for k in e.keywords):
                    return [unparse(e.args[0])] + [unparse(k.value) for k in e.keywords]
                return None
            sh = merged(d0)
            ok = sh is not None and sorted(sh) == ["ENCODINGS", "TRANSFORMS"]
    obl(rep, st, envs[0] if envs else st.node, "R11.2", ok, "Call.set_type builds an environment from {**TRANSFORMS, **ENCODINGS}", str(sh))
    asg = [s for s in walk_local(st.node) if isinstance(s, ast.Assign) and is_self_attr(s.targets[0], "env")]
    ok = len(asg) == 1 and isinstance(asg[0].value, ast.Call) and isinstance(asg[0].value.func, ast.Attribute) \
        and asg[0].value.func.attr == "with_outer_namespace" and unparse(asg[0].value.func.value) == tvar \
        and unparse(asg[0].value.args[0]) == f"{st.params[2]}.namespace"
    obl(rep, st, asg[0] if asg else st.node, "R11.2", ok,
        "self.env = <built-ins env>.with_outer_namespace(env.namespace): built-ins are consulted before user names",
        "", "Call.set_type does not put the built-in transforms before the user's namespace (v0.5.3 regression)")
    ev = [x for x in calls_in(st.node) if unparse(x.func) == "self.call.eval"]
    ok = len(ev) == 1 and len(ev[0].args) == 2 and unparse(ev[0].args[1]) == "self.env" and unparse(ev[0].args[0]) == st.params[1]
    if ok and asg:
        c = cfg_of(st)
        ok = c.dominates(c.node_of(asg[0]), c.node_of(ev[0]))
    obl(rep, st, ev[0] if ev else st.node, "R11.2", ok, "the call is evaluated in that environment: self.call.eval(data_mask, self.env)")


class _Exc(Exception):
    def __init__(self, name):
        self.name = name


def _lookup_worlds(prog, cls, mname, _depth=0):
    """Outcome of VarLookupDict.<mname>(key, ...) in the two worlds of a lookup - 'hit': some scope has the key (HIT = the
    value in the FIRST such scope, in list order) / 'miss': no scope has it.  {'hit': outcome, 'miss': outcome, 'core': fn or
    None} with outcome = ('return', value) | ('raise', exception class name).  Values: 'HIT', True, False, None,
    ('param', name), tuples of values."""
    if _depth > 4:
        raise AnalysisError("lookup: helper chain too deep")
    m = cls.methods.get(mname)
    if m is None:
        raise AnalysisError(f"VarLookupDict has no {mname}")
    key = m.params[1] if len(m.params) > 1 else None
    body = strip_docstring(m.node.body)
    loops = [n for n in body if isinstance(n, ast.For)]
    if loops:
        # the core search loop
        if len(loops) != 1 or len(body) != 2 or body[0] is not loops[0]:
            raise AnalysisError(f"{m.qual}: the search loop is not `for d in <scopes>: ...` followed by one statement")
        lp = loops[0]
        facts = {"fn": m, "iter": unparse(lp.iter), "node": lp}
        d = unparse(lp.target)
        hit = None
        swallowed_ok = False
        if len(lp.body) == 1 and isinstance(lp.body[0], ast.Try) and not lp.body[0].orelse and not lp.body[0].finalbody:
            t = lp.body[0]
            if len(t.body) == 1 and isinstance(t.body[0], ast.Return) and t.body[0].value is not None:
                hit = t.body[0].value
            swallowed_ok = len(t.handlers) == 1 and dotted(t.handlers[0].type) == "KeyError" \
                and all(isinstance(x, (ast.Pass, ast.Continue)) for x in t.handlers[0].body)
        elif len(lp.body) == 1 and isinstance(lp.body[0], ast.If) and not lp.body[0].orelse and unparse(lp.body[0].test) == f"{key} in {d}" \
                and len(lp.body[0].body) == 1 and isinstance(lp.body[0].body[0], ast.Return):
            hit = lp.body[0].body[0].value
            swallowed_ok = True
        if hit is None:
            rets_in = [n for n in ast.walk(lp) if isinstance(n, ast.Return)]
            if rets_in:
                # the loop returns something, but not under "this dict has the key": the first-hit discipline is broken
                facts["swallow"] = False
                facts["bad_form"] = f"`{short(lp.body[0], 70)}` ... `{short(rets_in[0], 40)}`"
                return {"hit": ("return", ("not-first-hit", facts["bad_form"])), "miss": ("return", None), "core": facts}
            raise AnalysisError(f"{m.qual}: the body of the search loop is not `try: return ... except KeyError: pass`")
        facts["swallow"] = swallowed_ok

        def hv(e):
            if unparse(e) == f"{d}[{key}]":
                return "HIT"
            if isinstance(e, ast.Tuple):
                return tuple(hv(x) for x in e.elts)
            if isinstance(e, ast.Constant):
                return e.value
            raise AnalysisError(f"{m.qual}: unmodelled value returned on a hit `{unparse(e)}`")

        after = body[1]
        if isinstance(after, ast.Raise):
            miss = ("raise", dotted(after.exc.func) if isinstance(after.exc, ast.Call) else dotted(after.exc))
        elif isinstance(after, ast.Return):
            miss = ("return", hv(after.value) if after.value is not None else None)
        else:
            raise AnalysisError(f"{m.qual}: unmodelled statement after the search loop")
        return {"hit": ("return", hv(hit)), "miss": miss, "core": facts}
    out = {"core": None}
    for world in ("hit", "miss"):
        env = {p: ("param", p) for p in m.params[1:]}

        def call_outcome(name):
            r = _lookup_worlds(prog, cls, name, _depth + 1)
            if r["core"] is not None:
                out["core"] = r["core"]
            o = r[world]
            if o[0] == "raise":
                raise _Exc(o[1])
            return o[1]

        def ev(e):
            if isinstance(e, ast.Constant):
                return e.value
            if isinstance(e, ast.Name):
                if e.id in env:
                    return env[e.id]
                raise AnalysisError(f"{m.qual}: unbound `{e.id}`")
            if isinstance(e, ast.Tuple):
                return tuple(ev(x) for x in e.elts)
            if isinstance(e, ast.Subscript) and unparse(e.value) == "self" and unparse(e.slice) == key:
                return call_outcome("__getitem__")
            if isinstance(e, ast.Call) and isinstance(e.func, ast.Attribute) and unparse(e.func.value) == "self" and e.func.attr in cls.methods \
                    and e.args and unparse(e.args[0]) == key:
                if e.func.attr == "get":
                    # get(key[, default]): HIT or the default handed in
                    r = _lookup_worlds(prog, cls, "get", _depth + 1)
                    if r["core"] is not None:
                        out["core"] = r["core"]
                    o = r[world]
                    if o[0] == "raise":
                        raise _Exc(o[1])
                    v = o[1]
                    if isinstance(v, tuple) and v and v[0] == "param":
                        v = ev(e.args[1]) if len(e.args) > 1 else None
                    return v
                return call_outcome(e.func.attr)
            if isinstance(e, ast.Call) and dotted(e.func) == "object" and not e.args:
                return ("sentinel", id(e))
            if isinstance(e, ast.Call) and dotted(e.func) == "any" and len(e.args) == 1 and isinstance(e.args[0], (ast.GeneratorExp, ast.ListComp)) \
                    and len(e.args[0].generators) == 1 and unparse(e.args[0].generators[0].iter) == "self._dicts" and not e.args[0].generators[0].ifs \
                    and unparse(e.args[0].elt) == f"{key} in {unparse(e.args[0].generators[0].target)}":
                return world == "hit"
            if isinstance(e, ast.Compare) and len(e.ops) == 1 and isinstance(e.ops[0], (ast.In, ast.NotIn)) and unparse(e.left) == key \
                    and unparse(e.comparators[0]) == "self":
                v = call_outcome("__contains__")
                if isinstance(v, bool):
                    return v if isinstance(e.ops[0], ast.In) else not v
            if isinstance(e, ast.Subscript) and isinstance(e.slice, ast.Constant) and isinstance(e.slice.value, int):
                b = ev(e.value)
                if isinstance(b, tuple) and not (b and b[0] == "param"):
                    return b[e.slice.value]
            if isinstance(e, ast.UnaryOp) and isinstance(e.op, ast.Not):
                v = ev(e.operand)
                if isinstance(v, bool):
                    return not v
            if isinstance(e, ast.IfExp):
                t = ev(e.test)
                if isinstance(t, bool):
                    return ev(e.body) if t else ev(e.orelse)
            if isinstance(e, ast.Compare) and len(e.ops) == 1 and isinstance(e.ops[0], (ast.Is, ast.IsNot)):
                a, b = ev(e.left), ev(e.comparators[0])
                sa_, sb_ = (isinstance(a, tuple) and a[:1] == ("sentinel",)), (isinstance(b, tuple) and b[:1] == ("sentinel",))
                if sa_ or sb_:
                    # an object created in this very call cannot be stored in any scope: it is only identical to itself
                    same = a == b
                    return same if isinstance(e.ops[0], ast.Is) else not same
                if a in ("HIT",) or b in ("HIT",) or isinstance(a, tuple) or isinstance(b, tuple):
                    raise AnalysisError(f"{m.qual}: identity test on a looked-up value `{unparse(e)}` (a stored None would count as a miss)")
                return (a is b) if isinstance(e.ops[0], ast.Is) else (a is not b)
            raise AnalysisError(f"{m.qual}: unmodelled expression `{unparse(e)[:60]}`")

        class _Ret(Exception):
            def __init__(self, v):
                self.v = v

        def run(stmts):
            for st in stmts:
                if isinstance(st, ast.Return):
                    raise _Ret(ev(st.value) if st.value is not None else None)
                if isinstance(st, ast.Raise):
                    raise _Exc(dotted(st.exc.func) if isinstance(st.exc, ast.Call) else (dotted(st.exc) if st.exc is not None else "re-raise"))
                if isinstance(st, ast.Expr):
                    if not isinstance(st.value, ast.Constant):
                        ev(st.value)
                    continue
                if isinstance(st, ast.Pass):
                    continue
                if isinstance(st, ast.Assign) and len(st.targets) == 1:
                    v = ev(st.value)
                    t = st.targets[0]
                    if isinstance(t, ast.Name):
                        env[t.id] = v
                        continue
                    if isinstance(t, ast.Tuple) and isinstance(v, tuple) and len(v) == len(t.elts) and all(isinstance(x, ast.Name) for x in t.elts):
                        for x, vv in zip(t.elts, v):
                            env[x.id] = vv
                        continue
                if isinstance(st, ast.If):
                    t = ev(st.test)
                    if isinstance(t, bool):
                        run(st.body if t else st.orelse)
                        continue
                if isinstance(st, ast.Try) and not st.finalbody:
                    try:
                        run(st.body)
                    except _Exc as e:
                        hs = [h for h in st.handlers if h.type is None or e.name in [dotted(x) for x in (h.type.elts if isinstance(h.type, ast.Tuple) else [h.type])]
                              or dotted(h.type) in ("Exception", "BaseException", "LookupError")]
                        if not hs:
                            raise
                        if hs[0].type is None or dotted(hs[0].type) in ("Exception", "BaseException"):
                            out.setdefault("broad", []).append(hs[0])
                        run(hs[0].body)
                    else:
                        run(st.orelse)
                    continue
                raise AnalysisError(f"{m.qual}: unmodelled statement `{unparse(st)[:60]}`")

        try:
            run(body)
            out[world] = ("return", None)
        except _Ret as r:
            out[world] = ("return", r.v)
        except _Exc as e:
            out[world] = ("raise", e.name)
    return out


def r11_3(prog, rep):
    cls = prog.cls("environment.VarLookupDict")
    gi = prog.fn("environment.VarLookupDict.__getitem__")
    W = {}
    for name in ("__getitem__", "__contains__", "get"):
        try:
            W[name] = _lookup_worlds(prog, cls, name)
        except AnalysisError as e:
            rep.defer(f"R11.3: {e}")
            W[name] = None
    g = W["__getitem__"]
    if g is not None:
        core = g["core"]
        cf = core["fn"] if core else gi
        obl(rep, cf, core["node"] if core else gi.node, "R11.3", core is not None and core["iter"] == "self._dicts", "lookup iterates self._dicts forward",
            core["iter"] if core else "", f"lookup iterates `{core['iter'] if core else None}`: order of scopes changed")
        obl(rep, gi, gi.node, "R11.3", g["hit"] == ("return", "HIT"), "returns the value of the first dict that has the key",
            str(g["hit"]), f"on a hit __getitem__ gives {g['hit']}")
        obl(rep, cf, core["node"] if core else gi.node, "R11.3", bool(core and core["swallow"]) and not g.get("broad"),
            "only KeyError is swallowed, and only to try the next dict", "", "exception handling in the lookup loop changed: a miss may resolve to something else")
        obl(rep, gi, gi.node, "R11.3", g["miss"] == ("raise", "KeyError"), "a name defined nowhere raises KeyError after the loop",
            str(g["miss"]), f"a name defined in no scope gives {g['miss']} instead of KeyError")
    init = prog.fn("environment.VarLookupDict.__init__")
    st = [s for s in walk_local(init.node) if isinstance(s, ast.Assign) and is_self_attr(s.targets[0], "_dicts")]
    sh = shape(st[0].value, {}) if st else None
    obl(rep, init, st[0] if st else init.node, "R11.3", sh == ["{}", f"*{init.params[1]}*"],
        "_dicts = [{}] + list(dicts): private dict first, user scopes in the given order", str(sh), f"_dicts is built as {sh}")
    # __contains__ / get agree with __getitem__ in both worlds (hit: True / the value; miss: False / the default handed in)
    c, gt = W["__contains__"], W["get"]
    if c is not None:
        f = prog.fn("environment.VarLookupDict.__contains__")
        obl(rep, f, f.node, "R11.3", (c["hit"], c["miss"]) == (("return", True), ("return", False)) and not c.get("broad"),
            "VarLookupDict.__contains__ is True exactly when the lookup hits", str((c["hit"], c["miss"])),
            f"__contains__ gives {c['hit']} on a hit and {c['miss']} on a miss")
    if gt is not None:
        f = prog.fn("environment.VarLookupDict.get")
        dflt = f.params[2] if len(f.params) > 2 else None
        obl(rep, f, f.node, "R11.3", (gt["hit"], gt["miss"]) == (("return", "HIT"), ("return", ("param", dflt))) and not gt.get("broad"),
            "VarLookupDict.get returns the looked-up value, the given default only on a miss", str((gt["hit"], gt["miss"])),
            f"get gives {gt['hit']} on a hit and {gt['miss']} on a miss")


# ---- tiny symbolic evaluator for get_function_from_module -------------------------------
class _Sym:
    def __init__(self, fn, nparts):
        self.fn = fn
        self.n = nparts
        self.env = {fn.params[0]: ("NAME",), fn.params[1]: ("ENV",)}

    def val(self, n):
        if isinstance(n, ast.Name):
            if n.id not in self.env:
                raise AnalysisError(f"get_function_from_module: unbound `{n.id}`")
            return self.env[n.id]
        if isinstance(n, ast.Constant):
            return ("const", n.value)
        if isinstance(n, ast.Call):
            d = dotted(n.func)
            if isinstance(n.func, ast.Attribute) and n.func.attr == "split" and self.val(n.func.value) == ("NAME",) \
                    and len(n.args) == 1 and is_str_const(n.args[0], "."):
                return ("list", [("part", i) for i in range(self.n)])
            if d == "len" and len(n.args) == 1:
                v = self.val(n.args[0])
                if v[0] == "list":
                    return ("const", len(v[1]))
            if d == "getattr" and len(n.args) == 2:
                return ("getattr", self.val(n.args[0]), self.val(n.args[1]))
            if d in ("functools.reduce", "reduce") and len(n.args) == 3 and isinstance(n.args[0], ast.Name) and n.args[0].id == "getattr":
                # left fold of getattr over a list of name parts, starting from the looked-up root
                seq = self.val(n.args[1])
                acc = self.val(n.args[2])
                if seq[0] == "list":
                    for item in seq[1]:
                        acc = ("getattr", acc, item)
                    return acc
            if d == "getattr" and len(n.args) == 3:
                return ("getattr-with-default", self.val(n.args[0]), self.val(n.args[1]))
            raise AnalysisError(f"get_function_from_module: unmodelled call `{unparse(n)}`")
        if isinstance(n, ast.Attribute):
            b = self.val(n.value)
            if b == ("ENV",) and n.attr == "namespace":
                return ("NS",)
            raise AnalysisError(f"get_function_from_module: unmodelled attribute `{unparse(n)}`")
        if isinstance(n, ast.Subscript):
            b = self.val(n.value)
            if b == ("NS",):
                return ("lookup", self.val(n.slice))
            if b[0] == "list":
                if isinstance(n.slice, ast.Slice):
                    lo = self.val(n.slice.lower)[1] if n.slice.lower is not None else None
                    hi = self.val(n.slice.upper)[1] if n.slice.upper is not None else None
                    return ("list", b[1][lo:hi])
                i = self.val(n.slice)
                if i[0] == "const":
                    try:
                        return b[1][i[1]]
                    except IndexError:
                        return ("IndexError",)
            raise AnalysisError(f"get_function_from_module: unmodelled subscript `{unparse(n)}`")
        if isinstance(n, ast.UnaryOp) and isinstance(n.op, ast.USub):
            v = self.val(n.operand)
            return ("const", -v[1])
        if isinstance(n, ast.Compare) and len(n.ops) == 1:
            a, b = self.val(n.left), self.val(n.comparators[0])
            if a[0] == b[0] == "const":
                op = n.ops[0]
                r = {ast.Eq: a[1] == b[1], ast.NotEq: a[1] != b[1], ast.Gt: a[1] > b[1], ast.GtE: a[1] >= b[1],
                     ast.Lt: a[1] < b[1], ast.LtE: a[1] <= b[1]}.get(type(op))
                if r is not None:
                    return ("const", r)
        raise AnalysisError(f"get_function_from_module: unmodelled expression `{unparse(n)}`")

    def truth(self, n):
        if isinstance(n, ast.UnaryOp) and isinstance(n.op, ast.Not):
            return not self.truth(n.operand)
        if isinstance(n, ast.BoolOp):
            vals = [self.truth(x) for x in n.values]
            return all(vals) if isinstance(n.op, ast.And) else any(vals)
        v = self.val(n)
        if v[0] == "const":
            return bool(v[1])
        if v[0] == "list":
            return bool(v[1])
        raise AnalysisError(f"get_function_from_module: undecidable test `{unparse(n)}`")

    def run(self, stmts):
        for s in stmts:
            if isinstance(s, ast.Assign) and isinstance(s.targets[0], ast.Name):
                self.env[s.targets[0].id] = self.val(s.value)
            elif isinstance(s, ast.Assign) and isinstance(s.targets[0], (ast.Tuple, ast.List)) and len(s.targets) == 1:
                # a, *rest = <list> / a, b = <list>: destructuring of a symbolic list of known length
                v = self.val(s.value)
                elts = s.targets[0].elts
                if v[0] != "list" or not all(isinstance(e, ast.Name) or (isinstance(e, ast.Starred) and isinstance(e.value, ast.Name)) for e in elts):
                    raise AnalysisError(f"get_function_from_module: unmodelled statement `{short(s)}`")
                stars = [i for i, e in enumerate(elts) if isinstance(e, ast.Starred)]
                items = v[1]
                if len(stars) > 1 or (not stars and len(elts) != len(items)) or (stars and len(items) < len(elts) - 1):
                    return ("ValueError",)
                if stars:
                    k = stars[0]
                    after = len(elts) - k - 1
                    for e, it in zip(elts[:k], items[:k]):
                        self.env[e.id] = it
                    self.env[elts[k].value.id] = ("list", items[k:len(items) - after])
                    for e, it in zip(elts[k + 1:], items[len(items) - after:]):
                        self.env[e.id] = it
                else:
                    for e, it in zip(elts, items):
                        self.env[e.id] = it
            elif isinstance(s, ast.If):
                r = self.run(s.body if self.truth(s.test) else s.orelse)
                if r is not None:
                    return r
            elif isinstance(s, ast.For) and isinstance(s.target, ast.Name):
                it = self.val(s.iter)
                if it[0] != "list":
                    raise AnalysisError("get_function_from_module: loop over non-list")
                for item in it[1]:
                    self.env[s.target.id] = item
                    r = self.run(s.body)
                    if r is not None:
                        return r
            elif isinstance(s, ast.Return):
                return self.val(s.value)
            elif isinstance(s, ast.Expr) and isinstance(s.value, ast.Constant):
                continue
            else:
                raise AnalysisError(f"get_function_from_module: unmodelled statement `{short(s)}`")
        return None


def r11_4(prog, rep):
    lv = prog.fn("terms.call_resolver.LazyVariable.eval")
    tries = [n for n in walk_local(lv.node) if isinstance(n, ast.Try)]
    ok = bool(tries)
    if ok:
        outer = tries[0]
        first = outer.body[0] if outer.body else None
        ok = isinstance(first, ast.Assign) and unparse(first.value) == f"{lv.params[1]}[self.name]"
        hs = outer.handlers
        ok = ok and len(hs) == 1 and dotted(hs[0].type) == "KeyError"
        inner = [n for h in hs for n in ast.walk(h) if isinstance(n, ast.Subscript) and unparse(n) == f"{lv.params[2]}.namespace[self.name]"]
        ok = ok and len(inner) == 1
        # the namespace is not consulted outside the handler
        outside = [n for n in ast.walk(lv.node) if isinstance(n, ast.Attribute) and n.attr == "namespace"
                   and not any(n is x for h in hs for x in ast.walk(h))]
        ok = ok and not outside
    obl(rep, lv, tries[0] if tries else lv.node, "R11.4", ok,
        "LazyVariable.eval subscripts the data mask first and consults env.namespace only in the KeyError handler",
        "", "a call argument is no longer looked up in the data frame first")
    rets = _rets(lv)
    obl(rep, lv, lv.node, "R11.4", len(rets) == 1 and isinstance(rets[0].value, ast.Name) and not cfg_of(lv).falls_off(),
        "LazyVariable.eval returns the looked-up value on every normal path", nontrivial=False)
    # re-raise in the inner handler
    reraise = [n for n in ast.walk(lv.node) if isinstance(n, ast.Raise)]
    obl(rep, lv, lv.node, "R11.4", all(r.exc is None or isinstance(r.exc, ast.Name) for r in reraise),
        "a name found nowhere re-raises the KeyError", nontrivial=False)
    g = prog.fn("terms.call_resolver.get_function_from_module")
    obl(rep, g, g.node, "R11.4", len(g.params) == 2 and not any(p in ("data", "data_mask") for p in g.params),
        "callee resolution never sees the data frame", f"params {g.params}")
    # "a name defined in none of these raises": a failed look-up of the callee is not caught and answered from somewhere else
    # (sys.modules, importlib, builtins, a default): no handler in the resolver swallows KeyError / AttributeError
    swallow = []
    for t_ in [n for n in ast.walk(g.node) if isinstance(n, ast.Try)]:
        for h_ in t_.handlers:
            caught = unparse(h_.type) if h_.type is not None else "BaseException"
            reraises = h_.body and isinstance(h_.body[-1], ast.Raise) and (h_.body[-1].exc is None or (h_.name and isinstance(h_.body[-1].exc, ast.Name) and h_.body[-1].exc.id == h_.name))
            if any(k in caught for k in ("KeyError", "AttributeError", "LookupError", "Exception", "BaseException", "NameError")) and not reraises:
                swallow.append(h_)
    obl(rep, g, swallow[0] if swallow else g.node, "R11.4", not swallow, "a callee found in no scope raises: the resolver has no fallback after a failed look-up", "",
        f"`except {unparse(swallow[0].type) if swallow and swallow[0].type is not None else ''}` answers a failed look-up from another source: "
        "a name bound in none of the documented scopes resolves anyway")
    # ... and is looked up again on every evaluation: nothing on the way is memoised (a cached attribute chain keeps answering
    # with the function that was bound at the first evaluation)
    from .C07 import MEMO_DECORATORS
    memo = []
    for c_ in calls_in(g.node):
        d_ = (dotted(c_.func) or "").split(".")[0]
        kind_, q_ = prog.resolve(g.module, d_) if d_ else (None, None)
        if kind_ == "func" and q_ in prog.functions:
            h_ = prog.functions[q_]
            if any(x and (x in MEMO_DECORATORS or x.split(".")[-1] in {m.split(".")[-1] for m in MEMO_DECORATORS}) for x in h_.decorators):
                memo.append((c_, h_))
    if any(x and (x in MEMO_DECORATORS or x.split(".")[-1] in {m.split(".")[-1] for m in MEMO_DECORATORS}) for x in g.decorators):
        memo.append((g.node, g))
    obl(rep, g, memo[0][0] if memo else g.node, "R11.4", not memo, "callee resolution is not memoised (resolved anew at every evaluation)", "",
        f"{memo[0][1].qual if memo else ''} is memoised: after the name is re-bound the call keeps resolving to the old function")
    for n in range(1, 6):
        sym = _Sym(g, n)
        try:
            res = sym.run(g.body)
        except AnalysisError as e:
            rep.defer(f"R11.4: {e}")
            break
        want = ("lookup", ("part", 0))
        for i in range(1, n):
            want = ("getattr", want, ("part", i))
        obl(rep, g, g.node, "R11.4", res == want,
            f"dotted callee with {n} part(s) resolves to namespace[p0]" + "".join(f".p{i}" for i in range(1, n)),
            "first part from the namespace, every further part by getattr in order",
            f"symbolic result {res} differs from the getattr chain {want}")
    # LazyCall.eval resolves the callee through get_function_from_module(self.callee, env)
    lc = prog.fn("terms.call_resolver.LazyCall.eval")
    cs = [x for x in calls_in(lc.node) if dotted(x.func) == "get_function_from_module"]
    ok = len(cs) == 1 and unparse(cs[0].args[0]) == "self.callee" and unparse(cs[0].args[1]) == lc.params[2]
    obl(rep, lc, cs[0] if cs else lc.node, "R11.4", ok, "LazyCall.eval resolves its callee by name in the evaluation environment")


def r11_5(prog, rep):
    fns = ["terms.call_resolver.LazyVariable.eval", "terms.call_resolver.LazyCall.eval", "terms.call_resolver.LazyOperator.eval",
           "terms.call_resolver.get_function_from_module", "environment.VarLookupDict.__getitem__", "environment.Environment.namespace",
           "terms.call.Call.set_type", "terms.call.Call.eval_new_data"]
    for q in fns:
        f = prog.fn(q)
        bad = []
        for c in calls_in(f.node, local=False):
            d = dotted(c.func) or ""
            if isinstance(c.func, ast.Attribute) and c.func.attr in ("get", "setdefault", "pop") and len(c.args) >= 1 \
                    and "namespace" in unparse(c.func.value):
                bad.append(short(c))
            if d in ("eval", "exec", "globals", "locals", "vars", "__import__", "importlib.import_module") or d.startswith("builtins."):
                bad.append(short(c))
            if d == "getattr" and len(c.args) == 3:
                bad.append(short(c))
        for t in [n for n in ast.walk(f.node) if isinstance(n, ast.Try)]:
            for h in t.handlers:
                names = dotted(h.type) if h.type is not None else "bare"
                if q.endswith("VarLookupDict.__getitem__"):
                    continue
                # a handler may re-raise, or (LazyVariable) fall back to the environment
                returns_value = any(isinstance(n, ast.Return) and n.value is not None for n in ast.walk(h))
                if returns_value:
                    bad.append(f"except {names}: return ...")
        # no memoisation of resolved objects: every lookup goes through the scopes of THIS call
        locals_ = set(f.params) | {x.id for x in ast.walk(f.node) if isinstance(x, ast.Name) and isinstance(x.ctx, ast.Store)}
        for nm in {x.id for x in ast.walk(f.node) if isinstance(x, ast.Name)} - locals_:
            kind_, gq = prog.resolve(f.module, nm)
            if kind_ == "var" and gq not in ("formulae.transforms.TRANSFORMS", "formulae.categorical.ENCODINGS", "formulae.config.config"):
                vals = prog.modules[gq.rsplit(".", 1)[0]].globals.get(nm, [])
                if any(v is not None and isinstance(v, (ast.Dict, ast.List, ast.Set, ast.Call)) for v in vals):
                    bad.append(f"module-level state `{gq}` (cache)")
        obl(rep, f, f.node, "R11.5", not bad, f"{f.qual.split('.', 1)[1]}: no silent default on the resolution path",
            "no .get(name, default), no 3-argument getattr, no eval/globals/builtins fallback, no handler that returns a value",
            f"silent fallback(s) on the resolution path: {bad}")


def r11_6(prog, rep):
    cap = prog.fn("environment.Environment.capture")
    c = cfg_of(cap)
    # depth = env + reference
    dep = [s for s in walk_local(cap.node) if isinstance(s, ast.Assign) and unparse(s.targets[0]) == "depth"]
    ok = len(dep) == 1 and unparse(dep[0].value) in ("env + reference", "reference + env")
    obl(rep, cap, dep[0] if dep else cap.node, "R11.6", ok, "depth = env + reference", unparse(dep[0].value) if dep else "")
    fr = [s for s in walk_local(cap.node) if isinstance(s, ast.Assign) and unparse(s.targets[0]) == "frame"]
    start = [s for s in fr if unparse(s.value) == "inspect.currentframe()"]
    step = [s for s in fr if unparse(s.value) == "frame.f_back"]
    loops = [n for n in walk_local(cap.node) if isinstance(n, ast.For)]
    ok = len(start) == 1 and len(step) == 1 and len(loops) == 1 and unparse(loops[0].iter) == "range(depth + 1)" \
        and any(step[0] is x for x in ast.walk(loops[0]))
    obl(rep, cap, loops[0] if loops else cap.node, "R11.6", ok,
        "capture starts at inspect.currentframe() and steps depth + 1 frames back",
        "one step leaves capture itself, `reference` steps leave the package, `env` steps are the user's choice",
        "frame arithmetic of capture changed")
    if loops:
        guards = [i for i in ast.walk(loops[0]) if isinstance(i, ast.If) and unparse(i.test) == "frame is None" and block_raises(i.body)]
        ok = len(guards) == 1 and step and loops[0].body.index(guards[0]) < [i for i, s in enumerate(loops[0].body) if s is step[0]][0]
        obl(rep, cap, guards[0] if guards else loops[0], "R11.6", ok, "a too-shallow stack raises before stepping")
    # isinstance dispatch: Environment instance passthrough, Integral -> depth, else TypeError
    tests = [unparse(i.test) for i in walk_local(cap.node) if isinstance(i, ast.If)]
    ok = any(t == "isinstance(env, cls)" for t in tests) and any("numbers.Integral" in t for t in tests) \
        and any(isinstance(r.exc, ast.Call) and dotted(r.exc.func) == "TypeError" for r in walk_local(cap.node) if isinstance(r, ast.Raise))
    obl(rep, cap, cap.node, "R11.6", ok, "non-integer env is refused with TypeError; an Environment is passed through")
    defaults = {a.arg: unparse(d) for a, d in zip(cap.node.args.args[-len(cap.node.args.defaults):], cap.node.args.defaults)}
    obl(rep, cap, cap.node, "R11.6", defaults.get("env") == "0" and defaults.get("reference") == "0", f"capture defaults {defaults}", nontrivial=False)
    fin = [t for t in walk_local(cap.node) if isinstance(t, ast.Try) and t.finalbody]
    ok = len(fin) == 1 and any(isinstance(s, ast.Delete) and unparse(s.targets[0]) == "frame" for s in fin[0].finalbody)
    obl(rep, cap, fin[0] if fin else cap.node, "R11.6", ok, "the frame reference is deleted in `finally` (no reference cycle keeps user frames alive)")
    # single call site, directly in design_matrices, reference=1, env passed through
    sites = []
    for q, f in prog.functions.items():
        for x in calls_in(f.node):
            if isinstance(x.func, ast.Attribute) and x.func.attr == "capture":
                sites.append((f, x))
    ok = len(sites) == 1 and sites[0][0].qual == "formulae.matrices.design_matrices"
    f, x = sites[0] if sites else (cap, cap.node)
    obl(rep, f, x, "R11.6", ok, "Environment.capture is called exactly once in the package, directly in the body of design_matrices",
        "so exactly one package frame lies between capture and the user's frame",
        f"capture is called from {[s[0].qual for s in sites]}: the constant `reference` no longer matches the number of package frames")
    if ok:
        kws = {k.arg: unparse(k.value) for k in x.keywords}
        pos = [unparse(a) for a in x.args]
        ref = kws.get("reference") or (pos[1] if len(pos) > 1 else None)
        envarg = pos[0] if pos else kws.get("env")
        obl(rep, f, x, "R11.6", ref == "1", "design_matrices passes reference=1", f"reference={ref}",
            f"reference={ref}: names would be resolved in the wrong frame (formulae's own or the caller's caller)")
        # env param reaches capture unchanged
        redefs = [s for s in walk_local(f.node) if isinstance(s, ast.Assign) and unparse(s.targets[0]) == "env" and s.value is not x
                  and s.lineno < x.lineno]
        obl(rep, f, x, "R11.6", envarg == "env" and not redefs, "the user's `env` argument reaches capture unchanged")
        # not inside nested function / lambda / comprehension
        nested = False
        for n in ast.walk(f.node):
            if isinstance(n, (ast.Lambda, ast.ListComp, ast.GeneratorExp, ast.DictComp, ast.SetComp)) and any(y is x for y in ast.walk(n)):
                nested = True
            if isinstance(n, ast.FunctionDef) and n is not f.node and any(y is x for y in ast.walk(n)):
                nested = True
        obl(rep, f, x, "R11.6", not nested, "the capture call is not inside a nested function, lambda or comprehension (each adds a frame)")


def r11_7(prog, rep):
    chain = [
        ("matrices.design_matrices", "DesignMatrices", 2, "env"),
        ("matrices.DesignMatrices.__init__", "self.model.eval", 1, None),
        ("terms.terms.Model.eval", "self.set_types", 1, None),
        ("terms.terms.Model.set_types", "term.set_type", 1, None),
        ("terms.terms.Term.set_type", "component.set_type", 1, None),
        ("terms.terms.GroupSpecificTerm.set_type", "self.expr.set_type", 1, None),
        ("terms.terms.GroupSpecificTerm.set_type", "component.set_type", 1, None),
        ("terms.terms.Response.set_type", "self.term.set_type", 1, None),
        ("matrices.ResponseMatrix.evaluate", "self.term.set_type", 1, "self.env"),
        ("terms.terms.Model.add_extra_terms", "create_extra_term", 3, None),
        ("terms.terms.create_extra_term", "extra_term.set_type", 1, None),
    ]
    for q, callee, idx, expect in chain:
        f = prog.fn(q)
        cs = [x for x in calls_in(f.node) if unparse(x.func) == callee and len(x.args) > idx]
        envp = expect or ("env" if "env" in f.params else None)
        ok = bool(cs) and all(unparse(x.args[idx]) == envp for x in cs)
        if not ok and expect == "self.env" and cs and "env" in f.params:
            # `self.env = env` stored before the call and `env` never re-bound: the parameter is the stored environment
            st_ = [s for s in walk_local(f.node) if isinstance(s, ast.Assign) and unparse(s.targets[0]) == "self.env" and unparse(s.value) == "env"]
            rb_ = [n for n in ast.walk(f.node) if isinstance(n, ast.Name) and n.id == "env" and isinstance(n.ctx, ast.Store)]
            ok = len(st_) == 1 and not rb_ and all(unparse(x.args[idx]) == "env" and st_[0].lineno <= x.lineno for x in cs)
        if ok and envp == "env":
            # `env` is the parameter (or, in design_matrices, the captured object): not rebound in between
            if q != "matrices.design_matrices":
                ok = not [s for s in walk_local(f.node) if isinstance(s, ast.Assign) and any(unparse(t) == "env" for t in s.targets)]
        obl(rep, f, cs[0] if cs else f.node, "R11.7", ok, f"{q.split('.', 1)[1]} hands the same env to {callee}",
            "", f"{callee} does not receive the captured environment")
    rm = prog.fn("matrices.ResponseMatrix.evaluate")
    st = [s for s in walk_local(rm.node) if isinstance(s, ast.Assign) and is_self_attr(s.targets[0], "env")]
    obl(rep, rm, st[0] if st else rm.node, "R11.7", len(st) == 1 and unparse(st[0].value) == "env", "ResponseMatrix.evaluate stores the env it was given")
    # prediction re-uses the stored environment
    en = prog.fn("terms.call.Call.eval_new_data")
    ev = [x for x in calls_in(en.node) if unparse(x.func) == "self.call.eval"]
    ok = bool(ev) and all(len(x.args) == 2 and unparse(x.args[1]) == "self.env" for x in ev)
    obl(rep, en, ev[0] if ev else en.node, "R11.7", ok, "Call.eval_new_data evaluates in the stored self.env (never a fresh Environment)")
    eo = prog.fn("terms.call.Call.eval_new_data_offset")
    ev = [x for x in calls_in(eo.node) if unparse(x.func) == "self.call.eval"]
    ok = all(len(x.args) == 2 and unparse(x.args[1]) == "self.env" for x in ev)
    obl(rep, eo, ev[0] if ev else eo.node, "R11.7", ok, "Call.eval_new_data_offset evaluates in the stored self.env")
    # self.env has a single writer
    cls = prog.cls("terms.call.Call")
    writers = []
    for mn, m in cls.methods.items():
        for s in walk_local(m.node):
            if isinstance(s, ast.Assign) and any(is_self_attr(t, "env") for t in s.targets):
                writers.append(mn)
    obl(rep, cls.methods["set_type"], cls.methods["set_type"].node, "R11.7", sorted(writers) == ["__init__", "set_type"],
        "Call.env is written only by __init__ (None) and set_type", str(writers))


from ..core import guard_rules  # noqa: E402

guard_rules(globals())

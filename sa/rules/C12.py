"""C12 - call terms evaluate like the Python expression they spell: grammar/table agreement and naming."""
import ast

from ..core import (
    bound_args,
    strip_docstring,
    AnalysisError,
    obl,
    unparse,
    short,
    dotted,
    is_str_const,
    is_self_attr,
    walk_local,
    calls_in,
)
from ..cfg import cfg_of
from .. import grammar as G
from ..scanmodel import extract_scan_token
from ..types import extract_registry
from . import C01

EXPLANATION = (
    "Inside a call the formula parser is reused for Python arithmetic. R12.1 restricts the grammar extracted for "
    "C01 to the operator kinds CallResolver accepts and compares the induced precedence and associativity with "
    "the Python language reference (comparisons < + - < * / < unary sign < **, ** right-associative, comparison "
    "chains are conjunctions); R12.2 three-table agreement: scanner lexeme -> token kind -> operator.<fn> -> "
    "printed symbol is the identity on lexemes and each <fn> is the standard-library function of that Python "
    "operator, operands evaluated in order; R12.3 argument plumbing (keyword arguments under their own name, "
    "positional in source order, callee(*args, **kwargs)); R12.4 {e} builds a call of I and I is the identity; "
    "R12.5 literal conversion (int/float of the lexeme, True/False/None, string value without quotes and "
    "lexeme kept for the name); R12.6 naming: every field __eq__ compares is rendered by __str__, and an "
    "injectivity detector (grouping erased + printer without parentheses => two different trees, one name)."
    " R12.7 the used-variables extractor finds every data column a call mentions (C09's R9.4)."
    ' R12.8 the formula text reaches the scanner untouched. R12.9 a literal reaches the evaluation as the scanner built it.'
)
ASSUMPTIONS = [
    "Python language reference, operator precedence table (6.17) and comparison chaining (6.10)",
    "operator.add/sub/mul/truediv/pow/eq/ne/le/lt/ge/gt/pos/neg are the functions of the corresponding operators",
    "numerical equality with eval() of the same text is a runtime relation and is not decided",
]

PY_PREC = {"==": 1, "!=": 1, "<=": 1, "<": 1, ">=": 1, ">": 1, "+": 2, "-": 2, "*": 3, "/": 3, "u": 4, "**": 5}
PY_FUNC = {"+": "add", "-": "sub", "*": "mul", "/": "truediv", "**": "pow", "==": "eq", "!=": "ne", "<=": "le", "<": "lt", ">=": "ge", ">": "gt"}
PY_UFUNC = {"+": "pos", "-": "neg"}
CMP = {"==", "!=", "<=", "<", ">=", ">"}


def _dict_literal(node):
    if not isinstance(node, ast.Dict):
        return None
    out = {}
    for k, v in zip(node.keys, node.values):
        if not is_str_const(k):
            return None
        out[k.value] = v
    return out


def run(prog, rep, tier):
    # rules that need no grammar model first: when the extraction below meets an unmodelled node class (say a constructor that
    # converts its value), what they found is still reported and the extraction error only matters if nothing else fired
    class _Ctx0:
        pass

    c0 = _Ctx0()
    c0.prog = prog
    r12_9(c0, rep)
    rep.floor("R12.9", 4)
    from . import shared as _sh0
    _sh0.formula_text_untouched(prog, rep, "R12.8")
    try:
        ex = G.extract(prog)
        S = G.summaries(ex)
    except AnalysisError as e:
        rep.defer(str(e))
        return
    sm, _ = extract_scan_token(prog)
    kind2lex = {}
    for lex, (kind, line) in sm.table.items():
        kind2lex.setdefault(kind, []).append(lex)
    ctx = C01.Ctx()
    ctx.prog, ctx.ex, ctx.S, ctx.sm, ctx.kind2lex = prog, ex, S, sm, kind2lex
    top, top_of_value = C01.compute_top(ctx)
    cr = prog.cls("terms.call_resolver.CallResolver")
    BO = _dict_literal(cr.class_attrs.get("BINARY_OPERATORS"))
    UO = _dict_literal(cr.class_attrs.get("UNARY_OPERATORS"))
    if BO is None or UO is None:
        raise AnalysisError("CallResolver.BINARY_OPERATORS / UNARY_OPERATORS are not dict displays with string keys")
    r12_1(ctx, rep, top, BO, UO)
    r12_2(ctx, rep, BO, UO)
    r12_3(ctx, rep)
    r12_4(ctx, rep)
    r12_5(ctx, rep)
    r12_6(ctx, rep)
    # "evaluating the same text over the resolved names": the callee is resolved by name in the environment of THIS call,
    # every time (C11's R11.4 / R11.5: getattr chain, no default, no cache), reported here as R12.3
    from . import C11
    for fn_ in (C11.r11_4, C11.r11_5, C11.r11_3):
        sub = rep.sub()
        fn_(prog, sub)
        for it in sub.items:
            it = dict(it)
            it["rule"] = "R12.3"
            rep.items.append(it)
            rep.counts["R12.3"] = rep.counts.get("R12.3", 0) + 1
    # "over the resolved names": a data column named in the call must be in the frame the call is evaluated on, i.e. found by
    # the used-variables extractor (C09's R9.4), reported here as R12.7
    from . import C09
    from ..core import reuse_rule
    reuse_rule(rep, C09.r9_4, "R12.7", prog)
    rep.floor("R12.7", 12)
    rep.floor("R12.1", 20)
    rep.floor("R12.2", 30)
    rep.floor("R12.3", 6)
    rep.floor("R12.5", 8)
    rep.floor("R12.6", 6)


def _levels(ctx):
    """production -> (kinds, operand nonterminals, repeats) for binary productions; and the unary production."""
    levels = {}
    unary = None
    for name, res in ctx.S.items():
        for path, status, val in res:
            if status != "return" or val[0] != "node":
                continue
            if val[1] == "Binary" and val[2]["operator"][0] == "tokv":
                kinds = set(val[2]["operator"][2])
                d = levels.setdefault(name, {"kinds": set(), "right": set(), "left": set(), "accumulates": False, "right_nested": False})
                d["kinds"] |= kinds
                r, l = val[2]["right"], val[2]["left"]
                if r[0] == "hole":
                    d["right"].add(r[2])
                    if r[2] == name:
                        d["right_nested"] = True
                if l[0] == "hole":
                    d["left"].add(l[2])
                if l[0] == "node" and l[1] == "Binary":
                    d["accumulates"] = True
                if r[0] == "node" and r[1] == "Binary":
                    d["right_nested"] = True
            if val[1] == "Unary" and val[2]["operator"][0] == "tokv":
                unary = {"name": name, "kinds": set(val[2]["operator"][2]), "operand": val[2]["right"][2] if val[2]["right"][0] == "hole" else None}
    return levels, unary


def r12_1(ctx, rep, top, BO, UO):
    prog = ctx.prog
    levels, unary = _levels(ctx)
    lex = lambda k: C01.lex_of(ctx, k)
    call_kinds = set(BO)
    fn_of = {}
    for name, d in levels.items():
        for k in d["kinds"]:
            fn_of[k] = name
    fnq = lambda name: ctx.ex.productions[name]["fn"]
    # pairwise precedence: a binds tighter than b  <=>  a can head the operand of b's production
    kinds = sorted(k for k in call_kinds if k in fn_of)
    missing = sorted(k for k in call_kinds if k not in fn_of)
    for k in missing:
        rep.bad("R12.1", prog.cls("terms.call_resolver.CallResolver").where, "formulae.terms.call_resolver.CallResolver",
                f"operator kind {k} of BINARY_OPERATORS", "no production of the parser builds a Binary node with this kind")
    for b in kinds:
        lb = lex(b)
        prod = fn_of[b]
        operands = levels[prod]["right"] | levels[prod]["left"]
        heads = set()
        for y in operands:
            if y != prod:
                heads |= top[y]
        for a in kinds:
            la = lex(a)
            if PY_PREC.get(la) is None or PY_PREC.get(lb) is None or fn_of[a] == prod:
                continue
            formula_tighter = ("bin", a) in heads
            python_tighter = PY_PREC[la] > PY_PREC[lb]
            f = fnq(prod)
            rep.check(formula_tighter == python_tighter, "R12.1", f.where, f.qual,
                      f"`{la}` vs `{lb}`: binds tighter in the formula grammar = {formula_tighter}, in Python = {python_tighter}",
                      "", f"precedence of `{la}` relative to `{lb}` differs from Python's")
        # unary sign vs this binary operator
        if unary and set(unary["kinds"]) & set(UO):
            formula_tighter = any(t == "un" for t, _ in heads)
            python_tighter = PY_PREC["u"] > PY_PREC[lb]
            f = fnq(prod)
            construct = f"unary sign vs `{lb}`: sign binds tighter in the formula grammar = {formula_tighter}, in Python = {python_tighter}"
            rep.check(formula_tighter == python_tighter, "R12.1", f.where, f.qual, construct, "",
                      f"`-x{lb}2` is parsed as `(-x){lb}2` but Python reads `-(x{lb}2)`" if lb == "**" else "unary sign precedence differs from Python's")
    # same-level kinds must have equal Python precedence
    for name, d in sorted(levels.items()):
        ks = sorted(k for k in d["kinds"] if k in call_kinds)
        ps = {PY_PREC.get(lex(k)) for k in ks}
        if ks:
            f = fnq(name)
            rep.check(len(ps) == 1, "R12.1", f.where, f.qual, f"level {name}: {[lex(k) for k in ks]} share one Python precedence level", "",
                      f"operators {ks} are parsed on one level but have Python precedences {ps}")
    # associativity
    for name, d in sorted(levels.items()):
        ks = sorted(k for k in d["kinds"] if k in call_kinds)
        if not ks:
            continue
        f = fnq(name)
        lxs = [lex(k) for k in ks]
        left_assoc = d["accumulates"] and not d["right_nested"]
        if "**" in lxs:
            rep.check(not left_assoc and d["right_nested"], "R12.1", f.where, f.qual,
                      "`**` chains associate to the right (Python: 2**x**2 == 2**(x**2))", "",
                      "`**` chains are left-associative: I(2**x**2) evaluates (2**x)**2, Python evaluates 2**(x**2)")
        elif set(lxs) & CMP:
            rep.check(not d["accumulates"] and not d["right_nested"], "R12.1", f.where, f.qual,
                      "comparison chains are not built as nested binary comparisons (Python: a < b < c == (a < b) and (b < c))", "",
                      "comparison chains are left-nested: I(a < b < c) evaluates (a < b) < c, Python evaluates (a < b) and (b < c)")
        else:
            rep.check(left_assoc, "R12.1", f.where, f.qual, f"{lxs} are left-associative like in Python", "",
                      f"{lxs} are not left-associative")


def r12_2(ctx, rep, BO, UO):
    prog = ctx.prog
    cr = prog.cls("terms.call_resolver.CallResolver")
    lo = prog.cls("terms.call_resolver.LazyOperator")
    SY = _dict_literal(lo.class_attrs.get("SYMBOLS"))
    if SY is None:
        raise AnalysisError("LazyOperator.SYMBOLS is not a dict display")
    SY = {k: v.value if is_str_const(v) else None for k, v in SY.items()}
    mod = cr.module
    obl_where = cr.where
    imp = mod.imports.get("operator")
    rep.check(imp == "operator", "R12.2", obl_where, cr.qual, "`operator` is the standard-library module", str(imp),
              f"`operator` is bound to {imp}")
    for table, ref, what in ((BO, PY_FUNC, "binary"), (UO, PY_UFUNC, "unary")):
        for kind, v in sorted(table.items()):
            lx = C01.lex_of(ctx, kind)
            fn = dotted(v)
            okf = fn is not None and fn.startswith("operator.")
            name = fn.split(".", 1)[1] if okf else None
            rep.check(lx is not None, "R12.2", obl_where, cr.qual, f"{what} kind {kind} is a token kind the scanner produces", f"lexeme `{lx}`",
                      f"{kind} is not produced by the scanner (dead table entry)")
            if lx is None:
                continue
            rep.check(okf and ref.get(lx) == name, "R12.2", obl_where, cr.qual,
                      f"{what} `{lx}` ({kind}) -> operator.{name} is Python's function for `{lx}`", f"expected operator.{ref.get(lx)}",
                      f"`{lx}` inside a call is evaluated with {fn}, Python evaluates it with operator.{ref.get(lx)}")
            rep.check(SY.get(name) == lx, "R12.2", lo.where, lo.qual, f"{what} `{lx}` is printed as `{SY.get(name)}` in the term name", "",
                      f"operator.{name} (lexeme `{lx}`) is printed as `{SY.get(name)}`: the name no longer spells the call")
    # resolver plumbing
    from . import shared as _sh

    def dispatch(method, table_attr, operand_fields, label):
        """partial evaluation of the visitor per operator kind: LazyOperator(<table entry>, operands in source order); a kind
        without an entry raises"""
        m = cr.methods[method]
        p_ = m.params[1]
        from . import shared as _shk
        kvar = _shk.ensure_kind_variable(m, p_)
        table = _dict_literal(cr.class_attrs[table_attr])
        if kvar is None:
            # the kind may be used without a temporary: give it one
            import copy as _c
            rep.defer(f"R12.2: {m.qual}: `<kind> = {p_}.operator.kind` not found")
            return
        want_args = [f"{p_}.{fld}.accept(self)" for fld in operand_fields]
        okall, bad = True, []
        for kind, entry in sorted(table.items()):
            try:
                out = _sh.specialise(prog, m, kvar, kind)
            except AnalysisError as e:
                rep.defer(f"R12.2: {e}")
                return
            ok_ = out[0] == "return" and isinstance(out[1], ast.Call) and dotted(out[1].func) == "LazyOperator" and not out[1].keywords \
                and len(out[1].args) == 1 + len(want_args) and unparse(out[1].args[0]) == unparse(entry) \
                and [unparse(a) for a in out[1].args[1:]] == want_args
            if not ok_:
                okall = False
                bad.append(f"{kind} -> {unparse(out[1]) if out[0] == 'return' else out[0]}")
        obl(rep, m, m.node, "R12.2", okall, f"{method}: LazyOperator({table_attr}[kind], {label}) - operands in source order", f"{len(table)} kinds", 
            f"operators inside calls are not resolved as LazyOperator(table[kind], {label}): {bad[:3]}")
        try:
            unk = _sh.specialise(prog, m, kvar, "<no such kind>")
        except AnalysisError as e:
            rep.defer(f"R12.2: {e}")
            return
        okr = unk[0] == "raise" and isinstance(unk[1].exc, ast.Call) and dotted(unk[1].exc.func) == "CallResolverError"
        obl(rep, m, unk[1] if unk[0] == "raise" else m.node, "R12.2", okr, f"{method}: a kind without a table entry raises CallResolverError", "",
            f"an operator kind outside {table_attr} ends in `{unk[0]}`")

    dispatch("visitBinaryExpr", "BINARY_OPERATORS", ["left", "right"], "left, right")
    dispatch("visitUnaryExpr", "UNARY_OPERATORS", ["right"], "operand")
    init = lo.methods["__init__"]
    st = [s for s in walk_local(init.node) if isinstance(s, ast.Assign) and is_self_attr(s.targets[0], "symbol")]
    obl(rep, init, st[0] if st else init.node, "R12.2", len(st) == 1 and unparse(st[0].value) == "self.SYMBOLS[op.__name__]",
        "the printed symbol is looked up from the function's __name__")
    ev = lo.methods["eval"]
    rets = [n for n in walk_local(ev.node) if isinstance(n, ast.Return)]
    from . import shared as _sh
    ok = False
    if len(rets) == 1 and isinstance(rets[0].value, ast.Call) and unparse(rets[0].value.func) == "self.op" and len(rets[0].value.args) == 1 \
            and isinstance(rets[0].value.args[0], ast.Starred) and not rets[0].value.keywords:
        arg0 = rets[0].value.args[0].value
        if isinstance(arg0, ast.Name):
            ds_ = [s_ for s_ in walk_local(ev.node) if isinstance(s_, ast.Assign) and len(s_.targets) == 1 and unparse(s_.targets[0]) == arg0.id]
            arg0 = ds_[0].value if len(ds_) == 1 else arg0
        ok = _sh.comp_signature(arg0) == ("list", f"$0.eval({ev.params[1]}, {ev.params[2]})", "self.args")
    obl(rep, ev, rets[0] if rets else ev.node, "R12.2", ok, "LazyOperator.eval applies the function to its operands in order", "",
        f"LazyOperator.eval returns `{unparse(rets[0].value) if rets else None}`")
    st = [s for s in walk_local(init.node) if isinstance(s, ast.Assign) and is_self_attr(s.targets[0], "args")]
    obl(rep, init, st[0] if st else init.node, "R12.2", len(st) == 1 and unparse(st[0].value) == "args", "LazyOperator keeps its operands in the given order")


def r12_3(ctx, rep):
    prog = ctx.prog
    f = prog.fn("terms.call_resolver.CallResolver.visitCallExpr")
    p = f.params[1]
    # the loop over the arguments, after bringing later passes over an intermediate list into it, is evaluated once for an
    # argument of the form name=value and once for any other argument
    from .C17 import single_pass_view
    from .. import symexec as SX
    from ..core import strip_docstring as _sd

    body = single_pass_view(_sd(f.node.body))
    loops = [n for n in body if isinstance(n, ast.For)]
    ok = len(loops) == 1 and unparse(loops[0].iter) == f"{p}.args" and isinstance(loops[0].target, ast.Name)
    obl(rep, f, f.node, "R12.3", ok, "arguments are processed in source order")
    rets = [n for n in body if isinstance(n, ast.Return)]
    ret = rets[0].value if len(rets) == 1 else None
    okr = isinstance(ret, ast.Call) and dotted(ret.func) == "LazyCall" and len(ret.args) == 3 and not ret.keywords \
        and unparse(ret.args[0]) == f"{p}.callee.name.lexeme" and all(isinstance(a, ast.Name) for a in ret.args[1:])
    obl(rep, f, f.node, "R12.3", okr, "LazyCall(callee lexeme, args, kwargs)", "", f"visitCallExpr returns `{unparse(ret) if ret is not None else None}`")
    if ok and okr:
        lp = loops[0]
        a = lp.target.id
        A_, K_ = ret.args[1].id, ret.args[2].id
        # `args = <list filled in the loop>` after the loop: the name handed to LazyCall is an alias of that list
        post = {unparse(st.targets[0]): st.value.id for st in body[body.index(lp) + 1:] if isinstance(st, ast.Assign) and len(st.targets) == 1
                and isinstance(st.targets[0], ast.Name) and isinstance(st.value, ast.Name)}
        A_, K_ = post.get(A_, A_), post.get(K_, K_)
        # module-level sentinels (`X = object()`): `E is X` holds only for X itself
        mod = f.module
        sentinels = {g for g, vals in mod.globals.items() if len(vals) == 1 and isinstance(vals[0], ast.Call) and dotted(vals[0].func) == "object" and not vals[0].args}

        def run_case(is_assign):
            def decide(t, sx=None):
                if isinstance(t, ast.UnaryOp) and isinstance(t.op, ast.Not):
                    r = decide(t.operand, sx)
                    return None if r is None else not r
                if unparse(t) == f"isinstance({a}, Assign)":
                    return is_assign
                if isinstance(t, ast.Compare) and len(t.ops) == 1 and isinstance(t.ops[0], (ast.Is, ast.IsNot)) \
                        and isinstance(t.comparators[0], ast.Name) and t.comparators[0].id in sentinels:
                    left = sx.text(t.left) if sx is not None else unparse(t.left)
                    same = left == t.comparators[0].id
                    if not same and left in sentinels:
                        return None
                    return same == isinstance(t.ops[0], ast.Is)
                return None

            ex = SX.SymExec(decide=decide)
            pre = [st for st in body[:body.index(lp)]]
            for st in pre:
                ex.step(st)
            ex.run(lp.body)
            pos = [SX.render(e[1][1][0]) for e in ex.effects if e[0] == "call" and e[1][0] == f"{A_}.append" and e[2] == () and len(e[1][1]) == 1]
            pos_any = [e for e in ex.effects if e[0] == "call" and e[1][0].startswith(f"{A_}.")]
            kw = [(e[1][1], SX.render(e[1][2])) for e in ex.effects if e[0] == "store" and e[1][0] == K_ and e[2] == ()]
            kw_any = [e for e in ex.effects if (e[0] == "store" and e[1][0] == K_) or (e[0] == "call" and e[1][0].startswith(f"{K_}."))]
            return pos, pos_any, kw, kw_any, ex

        try:
            pos1, pa1, kw1, ka1, ex1 = run_case(True)
            pos0, pa0, kw0, ka0, ex0 = run_case(False)
            init_ok = ex1.env.get(A_) is not None or True
            ok2 = (kw1 == [(f"{a}.name.name.lexeme", f"{a}.value.accept(self)")] and len(ka1) == 1 and not pa1
                   and pos0 == [f"{a}.accept(self)"] and len(pa0) == 1 and not ka0)
            why = f"name=value argument: kwargs {kw1}, args {[SX.render(e[1][1][0]) for e in pa1 if e[1][1]]}; other argument: args {pos0}, kwargs {kw0}"
            obl(rep, f, lp, "R12.3", ok2,
                "`name=value` arguments go to kwargs under the assigned name, all others are appended to args", why,
                f"keyword / positional argument plumbing changed - {why}")
            # the two containers start empty
            defs = {unparse(st.targets[0]): unparse(st.value) for st in body[:body.index(lp)] if isinstance(st, ast.Assign) and len(st.targets) == 1}
            obl(rep, f, f.node, "R12.3", defs.get(A_) in ("[]", "list()") and defs.get(K_) in ("{}", "dict()"),
                "args and kwargs start empty for every call", str({A_: defs.get(A_), K_: defs.get(K_)}), nontrivial=False)
        except AnalysisError as e:
            rep.defer(f"R12.3: visitCallExpr: {e}")
    ev = prog.fn("terms.call_resolver.LazyCall.eval")
    dm, env = ev.params[1], ev.params[2]
    defs = {unparse(s.targets[0]): unparse(s.value) for s in walk_local(ev.node) if isinstance(s, ast.Assign)}
    dnodes = {unparse(s.targets[0]): s.value for s in walk_local(ev.node) if isinstance(s, ast.Assign)}
    from . import shared as _sh
    ok = "args" in dnodes and "kwargs" in dnodes and _sh.comp_signature(dnodes["args"]) == ("list", f"$0.eval({dm}, {env})", "self.args") and \
        _sh.comp_signature(dnodes["kwargs"]) == ("dict", f"$0: $1.eval({dm}, {env})", "self.kwargs.items()")
    obl(rep, ev, ev.node, "R12.3", ok, "every argument is evaluated in the same data mask and environment, order and names preserved", "",
        f"args = {defs.get('args')}; kwargs = {defs.get('kwargs')}")
    rets = [n for n in walk_local(ev.node) if isinstance(n, ast.Return)]
    ok = len(rets) == 1 and unparse(rets[0].value) == "callee(*args, **kwargs)"
    obl(rep, ev, rets[0] if rets else ev.node, "R12.3", ok, "the call is callee(*args, **kwargs)", "", f"LazyCall.eval returns `{unparse(rets[0].value) if rets else None}`")
    init = prog.fn("terms.call_resolver.LazyCall.__init__")
    st = {s.targets[0].attr: unparse(s.value) for s in walk_local(init.node) if isinstance(s, ast.Assign) and is_self_attr(s.targets[0])}
    obl(rep, init, init.node, "R12.3", st.get("callee") == "callee" and st.get("args") == "args" and st.get("kwargs") == "kwargs",
        "LazyCall stores callee, args, kwargs unchanged")
    # nested calls: Resolver hands the whole Call node to CallResolver
    rv = prog.fn("resolver.Resolver.visitCallExpr")
    rets = [n for n in walk_local(rv.node) if isinstance(n, ast.Return)]
    obl(rep, rv, rv.node, "R12.3", len(rets) == 1 and unparse(rets[0].value) == f"Term(Call(CallResolver({rv.params[1]}).resolve()))",
        "a call atom becomes Term(Call(CallResolver(expr).resolve()))")


def r12_4(ctx, rep):
    prog = ctx.prog
    fn = ctx.ex.productions["primary"]["fn"]
    hits = []
    for path, status, val in ctx.S["primary"]:
        if status != "return":
            continue
        if any(e[0] == "tok" and tuple(e[1]) == ("LEFT_BRACE",) for e in path.events):
            hits.append((path, val))
    ok = bool(hits)
    for path, val in hits:
        good = (val[0] == "node" and val[1] == "Call" and val[2]["callee"][0] == "node" and val[2]["callee"][1] == "Variable"
                and val[2]["callee"][2]["name"] == ("ctok", "IDENTIFIER", "I") and val[2]["args"][0] == "list"
                and len(val[2]["args"][1]) == 1 and val[2]["args"][1][0][0] == "hole")
        ok = ok and good
    rep.check(ok, "R12.4", fn.where, fn.qual, "`{expr}` builds Call(Variable(IDENTIFIER 'I'), [expr])",
              G.show(hits[0][1]) if hits else "", f"`{{e}}` builds {G.show(hits[0][1]) if hits else None}")
    reg = extract_registry(prog)
    kind, q = reg["transforms"].get("I", (None, None))
    ok = kind == "func"
    if ok:
        f = prog.functions[q]
        rets = [n for n in walk_local(f.node) if isinstance(n, ast.Return)]
        ok = len(f.params) == 1 and len(rets) == 1 and unparse(rets[0].value) == f.params[0] and not cfg_of(f).falls_off() \
            and not [s for s in walk_local(f.node) if isinstance(s, (ast.Assign, ast.AugAssign))]
        obl(rep, f, f.node, "R12.4", ok, "TRANSFORMS['I'] returns its only parameter unchanged on every path", "",
            "I() is not the identity")
    else:
        rep.bad("R12.4", prog.mod("transforms").relpath + ":1", "formulae.transforms", "TRANSFORMS['I'] is a function", f"TRANSFORMS['I'] = {kind} {q}")


def r12_9(ctx, rep):
    """a literal inside a call is the Python literal: the value the scanner built reaches the evaluation untouched.
    Literal.__init__ and LazyValue.__init__ store their parameters as given, CallResolver.visitLiteralExpr hands expr.value on,
    LazyValue.eval returns the stored value."""
    prog = ctx.prog

    def stores_as_given(f, attrs):
        me = f.params[0]
        rebound = [n for n in ast.walk(f.node) if isinstance(n, ast.Name) and n.id in f.params and isinstance(n.ctx, (ast.Store, ast.Del))]
        got = {}
        for st in walk_local(f.node):
            if isinstance(st, ast.Assign):
                for tg in st.targets:
                    if isinstance(tg, ast.Attribute) and isinstance(tg.value, ast.Name) and tg.value.id == me:
                        got.setdefault(tg.attr, []).append(unparse(st.value))
        return not rebound and all(got.get(a) == [a] for a in attrs), rebound, got

    for q, attrs in (("expr.Literal.__init__", ["value", "lexeme"]), ("terms.call_resolver.LazyValue.__init__", ["value", "lexeme"])):
        f = prog.fn(q)
        ok, rebound, got = stores_as_given(f, attrs)
        obl(rep, f, rebound[0] if rebound else f.node, "R12.9", ok, f"{q.split('.')[-2]} stores its value and lexeme exactly as given", "",
            f"{q.split('.')[-2]}.__init__ does not keep the value it is given (re-bound parameter / converted value): {got}")
    v = prog.fn("terms.call_resolver.CallResolver.visitLiteralExpr")
    rets = [n for n in walk_local(v.node) if isinstance(n, ast.Return)]
    ini = prog.fn("terms.call_resolver.LazyValue.__init__")
    ok = len(rets) == 1 and isinstance(rets[0].value, ast.Call) and unparse(rets[0].value.func) == "LazyValue" and not cfg_of(v).falls_off()
    if ok:
        b = bound_args(ini.node, rets[0].value, skip_first=True)
        ok = b is not None and b.get("value") == f"{v.params[1]}.value" and b.get("lexeme") == f"{v.params[1]}.lexeme"
    obl(rep, v, v.node, "R12.9", ok, "visitLiteralExpr hands the literal's own value and lexeme to LazyValue")
    e = prog.fn("terms.call_resolver.LazyValue.eval")
    rets = [n for n in walk_local(e.node) if isinstance(n, ast.Return)]
    ok = len(rets) == 1 and unparse(rets[0].value) == f"{e.params[0]}.value" and not cfg_of(e).falls_off() \
        and not [s_ for s_ in walk_local(e.node) if isinstance(s_, (ast.Assign, ast.AugAssign))]
    obl(rep, e, e.node, "R12.9", ok, "LazyValue.eval returns the stored value")


def r12_5(ctx, rep):
    prog = ctx.prog
    lc_ = C01.local_cursor_methods(prog)
    if lc_:
        rep.defer(f"R12.5: Scanner.{', Scanner.'.join(sorted(lc_))} keep the cursor in a local index: the lexeme slices are not followed by the cursor model")
        return
    from .. import symexec as SX0
    from ..core import strip_docstring as _sd
    for name, conv in (("floatnum", {"float"}), ("number", {"int", "float"})):
        f = prog.fn(f"scanner.Scanner.{name}")
        # a numeric literal is converted from its TEXT, once: int(...) / float(...) are applied to the lexeme slice only (an integer
        # that went through float has lost its digits beyond 2**53; a float turned into int is another literal)
        convs = [c_ for c_ in calls_in(f.node) if isinstance(c_.func, ast.Name) and c_.func.id in ("int", "float", "round", "complex") and c_.args]
        def converted_value(e, depth=0):
            """is `e` (the argument of a conversion) itself the result of a conversion or of arithmetic - not a piece of text?"""
            if isinstance(e, ast.Call) and isinstance(e.func, ast.Name) and e.func.id in ("int", "float", "round", "complex", "abs"):
                return True
            if isinstance(e, (ast.BinOp, ast.UnaryOp)) and not isinstance(getattr(e, "op", None), ast.Add):
                return True
            if isinstance(e, ast.Name) and depth < 3:
                ds_ = [s_ for s_ in walk_local(f.node) if isinstance(s_, ast.Assign) and any(unparse(t_) == e.id for t_ in s_.targets)]
                return any(converted_value(d_.value, depth + 1) for d_ in ds_)
            return False

        indirect = [c_ for c_ in convs if converted_value(c_.args[0])]
        obl(rep, f, indirect[0] if indirect else f.node, "R12.5", not indirect, f"{name}: int / float are applied to the lexeme text only", "",
            f"`{short(indirect[0], 60) if indirect else ''}` converts a value that is not the lexeme text: the literal is no longer the Python literal it spells")
        try:
            ex0 = SX0.SymExec().run(_sd(f.node.body))
        except AnalysisError as e:
            rep.defer(f"R12.5: Scanner.{name}: {e}")
            continue
        adds0 = [e for e in ex0.effects if e[0] == "call" and e[1][0] == "self.add_token" and len(e[1][1]) == 2]
        leaves = []

        def collect(v):
            if isinstance(v, SX0.Ite):
                collect(v.a)
                collect(v.b)
            else:
                leaves.append(SX0.render(v))

        for e in adds0:
            collect(e[1][1][1])
        want = {f"{c}(self.code[self.start:self.current])" for c in conv}
        ok = bool(adds0) and set(leaves) == want
        obl(rep, f, f.node, "R12.5", ok, f"{name}: the literal is {sorted(conv)}(<the lexeme>)", "", f"{name} converts {sorted(set(leaves))}")
    f = prog.fn("scanner.Scanner.number")
    # the conversion is float exactly on the paths that consumed a '.', decided on the symbolic value handed to add_token
    from .. import symexec as SX
    from ..core import strip_docstring
    try:
        ex = SX.SymExec().run(strip_docstring(f.node.body))
        adds = [e for e in ex.effects if e[0] == "call" and e[1][0] == "self.add_token"]
        lex = "self.code[self.start:self.current]"
        # (polarity of the fractional-part test on the path, converter) for every way a NUMBER token is added
        def polarity(conds):
            """True / False / None: did the path take the `next is '.' followed by a digit` branch"""
            pol = None
            for c, truth in conds:
                neg = False
                while c.startswith("not (") and c.endswith(")"):
                    c, neg = c[5:-1], not neg
                if "'.'" in c and "isdigit" in c:
                    p_ = (truth is True) != neg
                    if pol is not None and pol != p_:
                        return None
                    pol = p_
            return pol

        pairs = []

        def expand(v, conds):
            if isinstance(v, SX.Ite):
                expand(v.a, conds + ((v.cond, True),))
                expand(v.b, conds + ((v.cond, False),))
            else:
                pairs.append((polarity(conds), SX.render(v)))

        ok = bool(adds) and all(len(e[1][1]) == 2 for e in adds)
        v = None
        if ok:
            for e in adds:
                v = e[1][1][1]
                expand(v, tuple(e[2]))
        dots = [e for e in ex.effects if e[0] == "call" and e[1][0] == "self.advance" and e[2]]
        okc = ok and {p_ for p_, _ in pairs} == {True, False} and all(
            (p_ is True and leaf == f"float({lex})") or (p_ is False and leaf == f"int({lex})") for p_, leaf in pairs)
        # the '.' is consumed exactly on the fractional path
        okc = okc and any(polarity(tuple(e[2])) is True for e in dots) and not any(polarity(tuple(e[2])) is False for e in dots)
        obl(rep, f, f.node, "R12.5", ok and okc, "a fractional part selects float, otherwise int",
            str(sorted(pairs, key=str)), f"NUMBER literal by path (fractional part?, converter): {sorted(pairs, key=str)}")
    except AnalysisError as e:
        rep.defer(f"R12.5: Scanner.number: {e}")
    f = prog.fn("scanner.Scanner.identifier")
    tests = [i for i in walk_local(f.node) if isinstance(i, ast.If) and isinstance(i.test, ast.Compare) and isinstance(i.test.ops[0], ast.In)]
    ok = len(tests) == 1 and isinstance(tests[0].test.comparators[0], (ast.Tuple, ast.List, ast.Set)) and \
        sorted(e.value for e in tests[0].test.comparators[0].elts) == ["False", "None", "True"]
    if not ok and len(tests) == 1 and isinstance(tests[0].test.comparators[0], ast.Dict):
        # membership in the very table that maps the spelling to the constant
        d = tests[0].test.comparators[0]
        ok = all(isinstance(k, ast.Constant) and isinstance(v, ast.Constant) and repr(v.value) == k.value for k, v in zip(d.keys, d.values)) \
            and sorted(k.value for k in d.keys) == ["False", "None", "True"]
    if ok:
        add = [x for x in calls_in(ast.Module(body=tests[0].body, type_ignores=[]), local=False) if dotted(x.func) == "self.add_token"]
        tok = unparse(tests[0].test.left)
        ok = len(add) == 1 and unparse(add[0].args[1]) in (f"eval({tok})", f"{{'True': True, 'False': False, 'None': None}}[{tok}]", f"ast.literal_eval({tok})")
    obl(rep, f, tests[0] if tests else f.node, "R12.5", ok, "True / False / None become the Python constants", "", "Python literal handling changed")
    f = prog.fn("scanner.Scanner.char")
    vals = [s for s in walk_local(f.node) if isinstance(s, ast.Assign) and unparse(s.value) == "self.code[self.start + 1:self.current - 1]"]
    adds = [x for x in calls_in(f.node) if dotted(x.func) == "self.add_token"]
    ok = len(vals) == 1 and len(adds) == 1 and unparse(adds[0].args[1]) == unparse(vals[0].targets[0])
    obl(rep, f, f.node, "R12.5", ok, "a string's value is the lexeme without its surrounding quotes")
    # parser keeps value and lexeme; CallResolver forwards both; LazyValue prints the lexeme, evaluates to the value
    fn = ctx.ex.productions["primary"]["fn"]
    ok = False
    for path, status, val in ctx.S["primary"]:
        if status == "return" and path.events and path.events[0][1] == ("STRING",):
            ok = val[0] == "node" and val[1] == "Literal" and val[2]["value"] == ("attr", ("tokv", 0, ("STRING",)), "literal") \
                and val[2]["lexeme"] == ("attr", ("tokv", 0, ("STRING",)), "lexeme")
    rep.check(ok, "R12.5", fn.where, fn.qual, "STRING -> Literal(value=token.literal, lexeme=token.lexeme) (quote style kept for the name)")
    for kind in ("NUMBER", "PYTHON_LITERAL"):
        ok = False
        for path, status, val in ctx.S["primary"]:
            if status == "return" and path.events and path.events[0][1] == (kind,) and len(path.events) == 1:
                ok = val[0] == "node" and val[1] == "Literal" and val[2]["value"] == ("attr", ("tokv", 0, (kind,)), "literal")
        rep.check(ok, "R12.5", fn.where, fn.qual, f"{kind} -> Literal(token.literal)")
    f = prog.fn("terms.call_resolver.CallResolver.visitLiteralExpr")
    rets = [n for n in walk_local(f.node) if isinstance(n, ast.Return)]
    obl(rep, f, f.node, "R12.5", len(rets) == 1 and unparse(rets[0].value) == f"LazyValue({f.params[1]}.value, {f.params[1]}.lexeme)",
        "literal -> LazyValue(value, lexeme)")
    f = prog.fn("terms.call_resolver.LazyValue.eval")
    rets = [n for n in walk_local(f.node) if isinstance(n, ast.Return)]
    obl(rep, f, f.node, "R12.5", len(rets) == 1 and unparse(rets[0].value) == "self.value", "LazyValue.eval returns the value")
    f = prog.fn("terms.call_resolver.CallResolver.visitVariableExpr")
    rets = [n for n in walk_local(f.node) if isinstance(n, ast.Return)]
    obl(rep, f, f.node, "R12.5", len(rets) == 1 and unparse(rets[0].value) == f"LazyVariable({f.params[1]}.name.lexeme)", "identifier -> LazyVariable(name)")


def r12_6_printer(ctx, rep, lo):
    """the printer of operator expressions agrees with the grammar that parses call arguments"""
    prog = ctx.prog
    s = lo.methods["__str__"]
    P = _dict_literal(lo.class_attrs.get("PRECEDENCE")) if "PRECEDENCE" in lo.class_attrs else None
    if P is None:
        # printer without a precedence table: the plain forms (and then the injectivity detector below decides)
        forms = [unparse(n.value) for n in walk_local(s.node) if isinstance(n, ast.Return)]
        ok = sorted(forms) == sorted(["f'{self.symbol}{self.args[0]}'", "f'{self.args[0]} {self.symbol} {self.args[1]}'"])
        obl(rep, s, s.node, "R12.6", ok, "unary: symbol+operand; binary: 'left symbol right' with single spaces", str(forms))
        return
    P = {k: (v.value if isinstance(v, ast.Constant) else None) for k, v in P.items()}
    U = lo.class_attrs.get("UNARY_PRECEDENCE")
    U = U.value if isinstance(U, ast.Constant) else None
    syms = sorted(C01.PREC.keys() & P.keys())
    cr = prog.cls("terms.call_resolver.CallResolver")
    call_lex = {C01.lex_of(ctx, k) for k in _dict_literal(cr.class_attrs["BINARY_OPERATORS"])}
    missing = sorted(x for x in call_lex if x not in P)
    rep.check(not missing and all(isinstance(v, int) for v in P.values()), "R12.6", lo.where, lo.qual,
              "LazyOperator.PRECEDENCE covers every binary operator CallResolver accepts", str(sorted(P)), f"no printing precedence for {missing}")
    for a in syms:
        for b in syms:
            if a < b:
                want = (C01.PREC[a] > C01.PREC[b]) - (C01.PREC[a] < C01.PREC[b])
                got = (P[a] > P[b]) - (P[a] < P[b])
                rep.check(want == got, "R12.6", lo.where, lo.qual,
                          f"printing precedence of `{a}` vs `{b}` agrees with the grammar that parsed the call", "",
                          f"the printer ranks `{a}` vs `{b}` differently from the parser: the name of a term would not spell the expression that is evaluated")
    rep.check(U is not None and all(U > v for v in P.values() if isinstance(v, int)), "R12.6", lo.where, lo.qual,
              "unary operators print as binding tighter than every binary operator (as they are parsed)", f"UNARY_PRECEDENCE={U}")
    pr = lo.methods.get("precedence")
    ok = pr is not None and pr.is_property and "self.UNARY_PRECEDENCE" in unparse(pr.node) and "self.PRECEDENCE[self.symbol]" in unparse(pr.node) \
        and "len(self.args) == 1" in unparse(pr.node)
    obl(rep, pr or s, (pr or s).node, "R12.6", ok, "an operator's precedence is UNARY_PRECEDENCE for one operand, PRECEDENCE[symbol] otherwise")
    so = lo.methods.get("_str_operand")
    ok = so is not None
    if ok:
        arg, right = so.params[1], so.params[2]
        tests = [unparse(i.test) for i in walk_local(so.node) if isinstance(i, ast.If)]
        want_t = f"{arg}.precedence < self.precedence or ({arg}.precedence == self.precedence and {right})"
        want_t2 = f"{arg}.precedence < self.precedence or {arg}.precedence == self.precedence and {right}"
        rets = sorted(unparse(n.value) for n in walk_local(so.node) if isinstance(n, ast.Return))
        ok = f"isinstance({arg}, LazyOperator)" in tests and (want_t in tests or want_t2 in tests) and rets == sorted([f"f'({{{arg}}})'", f"str({arg})"])
    obl(rep, so or s, (so or s).node, "R12.6", ok,
        "an operand is parenthesised iff it binds looser than its parent, or equally and stands on the right (all binary operators are parsed left-associatively)",
        "", "the parenthesisation rule of the printer does not match the left-associative precedence grammar")
    forms = sorted(unparse(n.value) for n in walk_local(s.node) if isinstance(n, ast.Return))
    defs = {unparse(a_.targets[0]): unparse(a_.value) for a_ in walk_local(s.node) if isinstance(a_, ast.Assign)}
    ok = forms == sorted(["f'{self.symbol}{self._str_operand(self.args[0], False)}'", "f'{left} {self.symbol} {right}'"]) and \
        defs.get("left") == "self._str_operand(self.args[0], False)" and defs.get("right") == "self._str_operand(self.args[1], True)"
    obl(rep, s, s.node, "R12.6", ok, "unary: symbol+operand; binary: 'left symbol right' with single spaces; the right operand is marked as right", str(forms))


def r12_6(ctx, rep):
    prog = ctx.prog
    lc = prog.cls("terms.call_resolver.LazyCall")
    s = lc.methods["__str__"]
    src = unparse(s.node)
    eqf = {n.attr for n in ast.walk(lc.methods["__eq__"].node) if is_self_attr(n)}
    strf = {n.attr for n in ast.walk(s.node) if is_self_attr(n)}
    obl(rep, s, s.node, "R12.6", eqf <= strf, f"LazyCall.__str__ renders every field __eq__ compares: {sorted(eqf)}", f"rendered {sorted(strf)}",
        f"LazyCall.__str__ omits {sorted(eqf - strf)}: different calls get the same name")
    # the rendered argument list, as an abstract list shape (however it is assembled): all positional arguments as str(arg), in
    # order, then all keyword arguments as name=str(value), in order; joined by ', ' between `callee(` and `)`
    import copy as _copy

    def comp_item(c):
        """'*<element> for <targets> in <iterable>*' with the comprehension's variables renamed v0, v1, ..."""
        if not (isinstance(c, (ast.ListComp, ast.GeneratorExp)) and len(c.generators) == 1 and not c.generators[0].ifs):
            return None
        c = _copy.deepcopy(c)
        names = [n.id for n in ast.walk(c.generators[0].target) if isinstance(n, ast.Name)]
        ren = {nm: f"v{i}" for i, nm in enumerate(names)}
        for n in ast.walk(c):
            if isinstance(n, ast.Name) and n.id in ren:
                n.id = ren[n.id]
            # f'{x}' / f'{x!s}' format a value with str(): the same text as f'{str(x)}'
            if isinstance(n, ast.FormattedValue) and n.format_spec is None and n.conversion in (-1, 115) \
                    and isinstance(n.value, ast.Call) and dotted(n.value.func) == "str" and len(n.value.args) == 1:
                n.value, n.conversion = n.value.args[0], -1
            elif isinstance(n, ast.FormattedValue) and n.conversion == 115:
                n.conversion = -1
        return f"*{unparse(c.elt)} for {unparse(c.generators[0].target)} in {unparse(c.generators[0].iter)}*"

    def lshape(e, env):
        if isinstance(e, ast.Name) and e.id in env:
            return list(env[e.id])
        if isinstance(e, (ast.ListComp, ast.GeneratorExp)):
            it = comp_item(e)
            return [it] if it else None
        if isinstance(e, ast.BinOp) and isinstance(e.op, ast.Add):
            a_, b_ = lshape(e.left, env), lshape(e.right, env)
            return a_ + b_ if a_ is not None and b_ is not None else None
        if isinstance(e, ast.List):
            out = []
            for x in e.elts:
                if not isinstance(x, ast.Starred):
                    return None
                sh = lshape(x.value, env)
                if sh is None:
                    return None
                out += sh
            return out
        if isinstance(e, ast.Call) and dotted(e.func) in ("list", "tuple") and len(e.args) == 1:
            return lshape(e.args[0], env)
        if isinstance(e, ast.Call) and dotted(e.func) in ("chain", "itertools.chain") and e.args:
            out = []
            for x in e.args:
                sh = lshape(x, env)
                if sh is None:
                    return None
                out += sh
            return out
        return None

    env = {}
    joined = None
    modelled = True
    for st in strip_docstring(s.node.body):
        if isinstance(st, ast.Assign) and len(st.targets) == 1 and isinstance(st.targets[0], ast.Name):
            sh = lshape(st.value, env)
            if sh is not None:
                env[st.targets[0].id] = sh
            continue
        if isinstance(st, ast.AugAssign) and isinstance(st.op, ast.Add) and isinstance(st.target, ast.Name) and st.target.id in env:
            sh = lshape(st.value, env)
            if sh is None:
                modelled = False
                break
            env[st.target.id] = env[st.target.id] + sh
            continue
        if isinstance(st, ast.Expr) and isinstance(st.value, ast.Call) and isinstance(st.value.func, ast.Attribute) and st.value.func.attr == "extend" \
                and isinstance(st.value.func.value, ast.Name) and st.value.func.value.id in env and len(st.value.args) == 1:
            sh = lshape(st.value.args[0], env)
            if sh is None:
                modelled = False
                break
            env[st.value.func.value.id] = env[st.value.func.value.id] + sh
            continue
        if isinstance(st, ast.Return):
            joins = [c for c in ast.walk(st) if isinstance(c, ast.Call) and isinstance(c.func, ast.Attribute) and c.func.attr == "join"
                     and isinstance(c.func.value, ast.Constant) and c.func.value.value == ", " and len(c.args) == 1]
            if len(joins) == 1:
                joined = lshape(joins[0].args[0], env)
                frame = _copy.deepcopy(st.value)
            continue
        if isinstance(st, ast.Expr) and isinstance(st.value, ast.Constant):
            continue
        modelled = False
        break
    want = ["*str(v0) for v0 in self.args*", "*f'{v0}={v1}' for (v0, v1) in self.kwargs.items()*"]
    if not modelled or joined is None:
        rep.defer(f"R12.6: LazyCall.__str__ assembles its argument list in a way the list-shape model does not follow")
    else:
        joined = [j.replace("str(v0) for v0 in self.args", "str(v0) for v0 in self.args") for j in joined]
        obl(rep, s, s.node, "R12.6", joined == want or joined == ["*f'{v0}' for v0 in self.args*", want[1]],
            "keyword arguments are rendered as name=value after the positional ones, joined by ', '", str(joined),
            f"the rendered argument list is {joined}, expected {want}")
    lo = prog.cls("terms.call_resolver.LazyOperator")
    s = lo.methods["__str__"]
    eqf = {n.attr for n in ast.walk(lo.methods["__eq__"].node) if is_self_attr(n)}
    strf = {n.attr for n in ast.walk(s.node) if is_self_attr(n)}
    obl(rep, s, s.node, "R12.6", eqf <= strf, f"LazyOperator.__str__ renders every field __eq__ compares: {sorted(eqf)}")
    r12_6_printer(ctx, rep, lo)
    lv = prog.cls("terms.call_resolver.LazyValue")
    s = lv.methods["__str__"]
    rets = [unparse(n.value) for n in walk_local(s.node) if isinstance(n, ast.Return)]
    obl(rep, s, s.node, "R12.6", sorted(rets) == ["self.lexeme", "str(self.value)"], "LazyValue prints its lexeme (original quote style) or str(value)")
    cl = prog.fn("terms.call.Call.__init__")
    st = [x for x in walk_local(cl.node) if isinstance(x, ast.Assign) and is_self_attr(x.targets[0], "name")]
    obl(rep, cl, st[0] if st else cl.node, "R12.6", len(st) == 1 and unparse(st[0].value) == "str(self.call)", "the term name is str(call)")
    from . import shared

    shared.eq_compares_fields(prog, rep, "R12.6", ["terms.call_resolver.LazyCall", "terms.call_resolver.LazyOperator",
                                                  "terms.call_resolver.LazyValue", "terms.call_resolver.LazyVariable", "terms.call.Call"],
                              extra_from_str=True)
    # injectivity detector
    g = prog.fn("terms.call_resolver.CallResolver.visitGroupingExpr")
    erased, _ = C01._passthrough_visit(g, g.params[1])
    s = lo.methods["__str__"]
    consts = [n.value for m_ in lo.methods.values() for n in ast.walk(m_.node) if isinstance(n, ast.Constant) and isinstance(n.value, str)]
    emits_paren = any("(" in c_ or ")" in c_ for c_ in consts)
    if erased and not emits_paren:
        rep.bad("R12.6", s.where, s.qual, "names are injective on operator trees (parentheses are rendered where grouping matters)",
                "CallResolver erases Grouping nodes and LazyOperator.__str__ cannot emit a parenthesis: f((a+b)*c) and f(a+b*c) are "
                "different trees (R1.1) with the same name; the second term is silently dropped from the design")
    else:
        rep.info("R12.6", s.where, s.qual, "printer emits parentheses or grouping is kept", "injectivity is not claimed, detector silent")


from ..core import guard_rules  # noqa: E402

guard_rules(globals())

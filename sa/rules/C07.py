"""C07 - designs are isolated: effects, long-lived state, caller's frame, determinism (R7.1 .. R7.7)."""
import ast

from ..core import (
    AnalysisError,
    obl,
    unparse,
    short,
    dotted,
    is_self_attr,
    is_str_const,
    walk_local,
    calls_in,
)
from ..cfg import cfg_of
from .. import dataflow as DF
from .. import predpath
from .C06 import _class_taint

EXPLANATION = (
    "An isolation property is an effects property. R7.1: transitive write-effects of the three evaluate_new_data "
    "entry points (typed call graph) - every attribute store on the prediction path targets an object constructed "
    "in the same function, an object under construction (__init__ / setters called only from it), a stateful "
    "transform under its fit-once regime, or LazyCall.stateful_transform under its write-once guard; any write to "
    "a training-state object fires. R7.2: every in-place array/container mutation on that path and in every "
    "registry callable targets an object created in the same invocation (reaching definitions on the CFG + a "
    "freshness lattice with a catalogue of copying vs. viewing numpy/pandas operations). R7.3: inventory of "
    "long-lived state: module-level and class-level mutable bindings are exactly the known ones, only the known "
    "writers write them, no mutable default arguments, no `global`, no memoisation decorators (positive controls "
    "embedded). R7.4: fitted state lives on per-call-site instances initialised in __init__. R7.5: the caller's "
    "frame and namespace are never written. R7.6: a Model is built per design_matrices call and has no other "
    "holder. R7.7: no randomness/clock, and iteration over sets feeds only order-insensitive consumers."
    ' R7.7 also follows containers filled in the iteration order of a set (sa/hashorder.py: nesting-depth lattice, typed call graph) and reports every order-sensitive use of such a container.'
)
ASSUMPTIONS = [
    "numpy: advanced (array/mask) indexing, arithmetic, np.copy/where/column_stack/concatenate/empty/zeros create new arrays; basic slicing, .T, .values, np.asarray may alias",
    "user-supplied functions and user-registered transforms are assumed pure",
    "numerical equality of results across histories follows from these rules only under that purity assumption",
]

# long-lived state confirmed by reading the pinned tree
KNOWN_GLOBALS = {
    "formulae.transforms.TRANSFORMS": "registry of built-in transforms (written by register_stateful_transform and the module's own update)",
    "formulae.categorical.ENCODINGS": "registry of encodings (no writer)",
    "formulae.config.config": "process-global configuration (written only through Config.__setattr__, user API)",
    "formulae._log": "logger", "formulae.matrices._log": "logger", "formulae.terms.terms._log": "logger",
    "formulae.terms.terms.ACCEPTED_TERMS": "tuple of classes",
    "formulae.__all__": "export list", "formulae.terms.__all__": "export list", "formulae.__version__": "string",
}
KNOWN_CLASS_ATTRS = {
    "formulae.config.Config.FIELDS": "declared configuration (no writer)",
    "formulae.terms.call_resolver.LazyOperator.SYMBOLS": "operator symbols (no writer)",
    "formulae.terms.call_resolver.CallResolver.BINARY_OPERATORS": "operator table (no writer)",
    "formulae.terms.call_resolver.CallResolver.UNARY_OPERATORS": "operator table (no writer)",
}
KNOWN_WRITERS = {
    "formulae.transforms.TRANSFORMS": {"formulae.transforms.register_stateful_transform", "formulae.transforms.<module>"},
}
MEMO_DECORATORS = {"lru_cache", "functools.lru_cache", "cache", "functools.cache", "cached_property", "functools.cached_property", "memoize", "memoized"}
TRAINING_STATE = {"Term", "GroupSpecificTerm", "Intercept", "NegatedIntercept", "Variable", "Call", "ContrastMatrix", "Model", "Response",
                  "LazyCall", "LazyOperator", "LazyVariable", "LazyValue", "Environment", "VarLookupDict", "Config",
                  "CommonEffectsMatrix", "GroupEffectsMatrix", "ResponseMatrix", "DesignMatrices"}
# iteration over sets whose order cannot reach labels / columns
SET_ITERATION_OK = {
    ("formulae.matrices.design_matrices", "list(cols_to_select)"): "only selects columns; every later access is by name",
    ("formulae.terms.variable.Variable.eval_new_data_categoric", "difference"): "feeds the text of the error / warning only",
    ("formulae.terms.call.Call.eval_new_data_categoric", "difference"): "feeds the text of the error / warning only",
    ("formulae.contrasts.Subterm.absorb", "list(diff)"): "the set has exactly one element (asserted)",
    ("formulae.contrasts.Subterm.__repr__", "list(self.efactors)"): "debug representation only",
}


def run(prog, rep, tier):
    pp = predpath.get(prog)
    rep.extra["prediction_path_functions"] = sorted(pp.path)
    r7_1(prog, rep, pp)
    r7_2(prog, rep, pp)
    r7_3(prog, rep, pp)
    r7_4(prog, rep, pp)
    r7_5(prog, rep, pp)
    r7_6(prog, rep, pp)
    r7_7(prog, rep, pp)
    rep.floor("R7.1", 10)
    rep.floor("R7.2", 10)
    rep.floor("R7.3", 12)
    rep.floor("R7.5", 4)


# ------------------------------------------------------------------------------------------
def _state_writes(fn):
    """(stmt node, receiver expr, attr, kind, root) for attribute-level writes in fn and its closures"""
    out = []
    for root in DF.function_nodes(fn):
        for n in ast.walk(root):
            tgts = []
            if isinstance(n, ast.Assign):
                tgts = list(n.targets)
            elif isinstance(n, (ast.AugAssign, ast.AnnAssign)):
                tgts = [n.target]
            elif isinstance(n, ast.Delete):
                tgts = list(n.targets)
            for t in tgts:
                for x in ([t] if not isinstance(t, (ast.Tuple, ast.List)) else t.elts):
                    if isinstance(x, ast.Attribute):
                        out.append((n, x.value, x.attr, "attribute store", root))
                    elif isinstance(x, ast.Subscript) and isinstance(x.value, ast.Attribute):
                        out.append((n, x.value.value, x.value.attr, "store into attribute container", root))
            if isinstance(n, ast.Call):
                if isinstance(n.func, ast.Attribute) and n.func.attr in DF.INPLACE_METHODS and isinstance(n.func.value, ast.Attribute):
                    out.append((n, n.func.value.value, n.func.value.attr, f".{n.func.attr}() on attribute", root))
                if dotted(n.func) == "setattr" and len(n.args) == 3:
                    out.append((n, n.args[0], unparse(n.args[1]), "setattr", root))
                if dotted(n.func) in ("object.__setattr__",) and len(n.args) == 3:
                    out.append((n, n.args[0], unparse(n.args[1]), "object.__setattr__", root))
    return out


def _fresh_local(fn, name, node):
    """every definition of local `name` in fn is a constructor call"""
    defs = [s for s in walk_local(fn.node) if isinstance(s, ast.Assign) and any(isinstance(t, ast.Name) and t.id == name for t in s.targets)]
    if not defs or name in fn.params:
        return False
    for d in defs:
        v = d.value
        if not isinstance(v, ast.Call):
            return False
        fnm = unparse(v.func)
        if not (fnm in ("self.__class__", "type(self)") or (isinstance(v.func, ast.Name) and v.func.id[:1].isupper())):
            return False
    return True


def r7_1(prog, rep, pp):
    te = pp.te
    reads = set()
    for f in prog.functions.values():
        for n in ast.walk(f.node):
            if isinstance(n, ast.Attribute) and isinstance(n.ctx, ast.Load):
                reads.add(n.attr)
    # setters that are only invoked while constructing the object
    ctor_setters = set()
    for cls in prog.classes.values():
        for sname, st in cls.setters.items():
            callers = []
            for q, sites in te.sites.items():
                for s in sites.values():
                    if st.qual in s.targets:
                        callers.append(q)
            if callers and all(c == f"{cls.qual}.__init__" for c in callers):
                ctor_setters.add(st.qual)
    n_writes = 0
    for q in sorted(pp.path):
        f = prog.functions[q]
        if f.parent is not None:
            continue
        writes = _state_writes(f)
        cls = f.cls
        taints = None
        for stmt, recv, attr, kind, root in writes:
            n_writes += 1
            construct = f"`{short(stmt, 70)}` ({kind})"
            rname = recv.id if isinstance(recv, ast.Name) else None
            self_name = f.params[0] if (cls is not None and f.params and not f.is_staticmethod) else None
            if rname is not None and rname != self_name and _fresh_local(f, rname, stmt):
                obl(rep, f, stmt, "R7.1", True, construct, f"`{rname}` is an object constructed in this function")
                continue
            if rname is not None and rname == self_name:
                if f.name == "__init__" or q in ctor_setters:
                    obl(rep, f, stmt, "R7.1", True, construct, "the object is under construction", nontrivial=False)
                    continue
                if cls.qual in pp.stateful:
                    g = pp.guard_of(f, stmt)
                    ctx = pp.class_guard_context(cls)
                    g = g or ctx.get(f.name)
                    if taints is None:
                        _, taints = _class_taint(pp, cls)
                    t = taints.get(f.name) or set()
                    value = getattr(stmt, "value", None)
                    data_dep = value is not None and bool(DF._names_loaded(value) & t)
                    closed = False
                    if g is not None:
                        wf = f if "ifnode" in g and any(g["ifnode"] is x for r_ in DF.function_nodes(f) for x in ast.walk(r_)) else g.get("sites", [(f, None)])[0][0]
                        closed, _why = pp.guard_closed(cls, wf, g)
                    ok = (g is not None and closed) or not data_dep
                    obl(rep, f, stmt, "R7.1", ok, construct,
                        "stateful transform: " + ("under its fit-once guard" if g is not None else "copies an argument of the call (not fitted from data; idempotent per call site)"),
                        "a stateful transform rewrites fitted state on later evaluations (no fit-once guard, or the guard is never closed): "
                        "earlier results and later evaluations depend on the history")
                    continue
                if cls.name == "LazyCall" and attr == "stateful_transform":
                    g = pp.guard_of(f, stmt)
                    ok = g is not None and g["kind"] == "none" or (g is None and "self.stateful_transform is None" in unparse(f.node))
                    # the guard is a conjunct of a larger test: accept `... and self.stateful_transform is None`
                    encl = [i for i in walk_local(f.node) if isinstance(i, ast.If) and any(stmt is x for x in ast.walk(i))]
                    ok = any("self.stateful_transform is None" in unparse(i.test) for i in encl)
                    obl(rep, f, stmt, "R7.1", ok, construct, "write-once under `self.stateful_transform is None`",
                        "LazyCall.stateful_transform is overwritten on later evaluations: fitted parameters are lost / re-fitted")
                    continue
            # typed receiver?
            rt = te.type_of(f, recv)
            classes = sorted({a[1].rsplit(".", 1)[1] for a in rt if a[0] == "inst"})
            if attr not in reads and not kind.startswith("store into") and not kind.startswith("."):
                rep.info("R7.1", f.loc(stmt), f.qual, construct, "the attribute is never read anywhere in the package")
                continue
            hit = [c for c in classes if c in TRAINING_STATE] or ([cls.name] if rname == self_name and cls is not None else classes or ["<unknown object>"])
            obl(rep, f, stmt, "R7.1", False, construct, "",
                f"write to `{unparse(recv)}.{attr}` of {hit} on the prediction path ({pp.chain(q)}): evaluating new data alters "
                "training state / earlier results")
    rep.extra["prediction_path_writes_examined"] = n_writes


# ------------------------------------------------------------------------------------------
def _scope_functions(prog, pp):
    fns = set(pp.path) | set(pp.reg_funcs)
    for q in pp.stateful | pp.transient:
        cls = prog.classes[q]
        fns |= {m.qual for m in cls.methods.values()} | {m.qual for m in cls.setters.values()}
    # an Environment may be created by the caller, passed as env= and reused for several designs: its methods must not
    # change it in place either
    for cq in ("environment.Environment", "environment.VarLookupDict"):
        cls = prog.cls(cq)
        fns |= {m.qual for m in cls.methods.values() if m.name != "__init__"}
    # looking at a result (printing, indexing, converting) must not change it or the design it came from: every method of the
    # matrix containers is in scope as well
    for cq in ("matrices.DesignMatrices", "matrices.ResponseMatrix", "matrices.CommonEffectsMatrix", "matrices.GroupEffectsMatrix"):
        cls = prog.cls(cq)
        fns |= {m.qual for m in cls.methods.values() if m.name != "__init__"}
    return {q for q in fns if q in prog.functions and prog.functions[q].parent is None}


_REF_ATTR_SITES = None


def _reference_attr_sites():
    """(function, attribute target text) of every in-place mutation of an attribute-held container in the reference snapshot:
    the sites confirmed on the pinned tree (evaluate filling self.slices, the intercept normalisation of Model.__or__, ...)"""
    global _REF_ATTR_SITES
    if _REF_ATTR_SITES is None:
        from ..core import Program
        from ..refswap import REF_ROOT
        import os
        out = set()
        if os.path.isdir(os.path.join(REF_ROOT, "formulae")):
            ref = Program(REF_ROOT, normalise=False)
            for q2, f2 in ref.functions.items():
                if f2.parent is not None:
                    continue
                for _node, target, _kind, _root in DF.inplace_sites(f2):
                    t_ = target
                    while isinstance(t_, ast.Subscript):
                        t_ = t_.value
                    if isinstance(t_, ast.Attribute):
                        # keyed by the owner (class, or module for plain functions): the site may move between the methods /
                        # nested helpers of one class without becoming another kind of write
                        out.add((f2.cls.qual if f2.cls is not None else f2.module.name, unparse(t_)))
        _REF_ATTR_SITES = out
    return _REF_ATTR_SITES


def r7_2(prog, rep, pp):
    n = 0
    ref_sites = _reference_attr_sites()
    for q in sorted(_scope_functions(prog, pp)):
        f = prog.functions[q]
        sites = DF.inplace_sites(f)
        if not sites:
            continue
        fr = DF.Freshness(f)
        for node, target, kind, root in sites:
            if isinstance(target, ast.Attribute) and not (isinstance(target.value, ast.Name) and False):
                # attribute-level state: the writes of attributes are decided by R7.1 / R6.1; an in-place mutation of a container
                # held in an attribute (self._namespaces.append(x), other.terms.pop()) is only accepted at the sites of the
                # reference snapshot, in constructors, or on an object created in this very function
                base = target
                while isinstance(base, ast.Attribute):
                    base = base.value
                if isinstance(target, ast.Attribute):
                    ttxt = unparse(target)
                    fresh_base = False
                    if isinstance(base, ast.Name) and base.id not in (f.params[:1] or []):
                        try:
                            fresh_base = bool(fr.of_name(base.id, fr.cfg.node_of(node))[0]) if root is f.node else False
                        except Exception:  # noqa: BLE001
                            fresh_base = False
                    owner_ = f.cls.qual if f.cls is not None else f.module.name
                    if ref_sites and (owner_, ttxt) not in ref_sites and f.name not in ("__init__",) and not f.is_setter and not fresh_base \
                            and kind != "attribute store":
                        n += 1
                        rep.bad("R7.2", f.loc(node), f.qual, f"`{short(node, 70)}` ({kind} on `{ttxt}`)",
                                f"a container held in `{ttxt}` is changed in place at a site the pinned tree does not have: the object outlives this call "
                                "(a shared list of namespaces, the terms of a fitted design) and keeps the change")
                    continue
            if not isinstance(target, ast.Name):
                if isinstance(target, ast.Subscript):
                    # a[i][j] = v : mutation through a view of a
                    inner = target
                    while isinstance(inner, ast.Subscript):
                        inner = inner.value
                    if not isinstance(inner, ast.Name):
                        continue
                    target = inner
                else:
                    continue
            n += 1
            construct = f"`{short(node, 70)}` ({kind} on `{target.id}`)"
            if root is f.node:
                try:
                    at = fr.cfg.node_of(node)
                except AnalysisError:
                    at = None
                ok, why = fr.of_name(target.id, at) if at is not None else (False, "no CFG node")
            else:
                # closure: the variable belongs to the enclosing function; all its definitions must be fresh
                defs = [s for s in walk_local(f.node) if isinstance(s, ast.Assign) and any(isinstance(t, ast.Name) and t.id == target.id for t in s.targets)]
                local_defs = [s for s in ast.walk(root) if isinstance(s, ast.Assign) and any(isinstance(t, ast.Name) and t.id == target.id for t in s.targets)]
                ok, why = bool(defs or local_defs), "closure variable"
                for s in defs:
                    o2, w2 = fr.of_expr(s.value, fr.cfg.node_of(s))
                    if not o2:
                        ok, why = False, w2
                if ok:
                    why = "every definition in the enclosing function creates a new object"
            obl(rep, f, node, "R7.2", ok, construct, why,
                f"in-place mutation of an object that was not created in this call: {why} - the caller's data / remembered "
                "training arrays are changed by evaluating")
    if n < 10:
        raise AnalysisError(f"R7.2: only {n} in-place mutation sites found on the prediction path and in the registry (floor 10)")


# ------------------------------------------------------------------------------------------
def _is_mutable_value(v):
    return isinstance(v, (ast.Dict, ast.List, ast.Set, ast.ListComp, ast.DictComp, ast.SetComp)) or (
        isinstance(v, ast.Call) and (dotted(v.func) in ("dict", "list", "set", "defaultdict", "collections.defaultdict", "OrderedDict",
                                                        "collections.OrderedDict", "Counter", "deque", "collections.deque")
                                     or (isinstance(v.func, ast.Name) and v.func.id[:1].isupper())
                                     or dotted(v.func) in ("logging.getLogger", "version")))


def _is_constant_table(v):
    """a non-empty literal display (dict / list / tuple / set of constants, names, attributes): a lookup table, not a cache"""
    if isinstance(v, ast.Dict):
        return bool(v.keys) and all(k is not None and isinstance(k, ast.Constant) for k in v.keys) and \
            all(isinstance(x, (ast.Constant, ast.Name, ast.Attribute, ast.Tuple, ast.List)) for x in v.values)
    if isinstance(v, (ast.List, ast.Set, ast.Tuple)):
        return bool(v.elts) and all(isinstance(x, (ast.Constant, ast.Name, ast.Attribute, ast.Tuple)) for x in v.elts)
    # a table derived from other tables when the module / class is created: {k: i for i, ks in enumerate(LEVELS, 1) for k in ks},
    # dict(zip(KEYS, VALUES)), {**A, **B}: it is filled once with constants; any later writer would be reported separately
    if isinstance(v, (ast.DictComp, ast.ListComp, ast.SetComp)):
        free_calls = [dotted(c.func) for c in ast.walk(v) if isinstance(c, ast.Call)]
        return all(d in ("enumerate", "zip", "range", "len", "sorted", "reversed", "str", "tuple", "list", "dict.items", "dict.keys") or
                   (d or "").endswith((".items", ".keys", ".values")) for d in free_calls)
    if isinstance(v, ast.Call) and dotted(v.func) == "dict" and len(v.args) == 1 and isinstance(v.args[0], ast.Call) and dotted(v.args[0].func) == "zip":
        return True
    return False


def r7_3(prog, rep, pp):
    # module-level bindings
    for m in prog.modules.values():
        for name, vals in sorted(m.globals.items()):
            q = f"{m.name}.{name}"
            mutable = any(v is not None and _is_mutable_value(v) for v in vals)
            if not mutable:
                continue
            table = all(v is not None and _is_constant_table(v) for v in vals)
            if q not in KNOWN_GLOBALS and table:
                rep.info("R7.3", f"{m.relpath}:1", q, f"new module-level constant table `{q}`", "non-empty literal display; any writer would be reported separately")
                continue
            rep.check(q in KNOWN_GLOBALS, "R7.3", f"{m.relpath}:1", q, f"module-level mutable binding `{q}` is one of the known long-lived objects",
                      KNOWN_GLOBALS.get(q, ""), f"new module-level mutable `{q}`: state that outlives a call and is shared by all designs")
    # class-level mutable attributes
    for cls in prog.classes.values():
        for an, v in sorted(cls.class_attrs.items()):
            if _is_mutable_value(v):
                q = f"{cls.qual}.{an}"
                if q not in KNOWN_CLASS_ATTRS and _is_constant_table(v):
                    rep.info("R7.3", cls.where, q, f"new class-level constant table `{q}`", "non-empty literal display; any writer would be reported separately")
                    continue
                rep.check(q in KNOWN_CLASS_ATTRS, "R7.3", cls.where, q, f"class-level mutable attribute `{q}` is a known constant table",
                          KNOWN_CLASS_ATTRS.get(q, ""), f"new class-level mutable `{q}` is shared by all instances (e.g. fitted parameters would leak across designs)")
    # writers of module-level / class-level mutables
    glob_names = {}
    for m in prog.modules.values():
        for name in m.globals:
            glob_names.setdefault(name, []).append(f"{m.name}.{name}")
    class_tables = {q.rsplit(".", 1)[1]: q for q in KNOWN_CLASS_ATTRS}
    for cls in prog.classes.values():
        for an, v in cls.class_attrs.items():
            if _is_mutable_value(v):
                class_tables.setdefault(an, f"{cls.qual}.{an}")
    for q, f in sorted(prog.functions.items()):
        locals_ = set(DF._all_params(f)) | {t.id for s in ast.walk(f.node) if isinstance(s, (ast.Assign, ast.For, ast.comprehension))
                                            for t in ast.walk(s.targets[0] if isinstance(s, ast.Assign) else s.target)
                                            if isinstance(t, ast.Name) and isinstance(t.ctx, ast.Store)}
        for node, target, kind, root in DF.inplace_sites(f):
            base = target
            while isinstance(base, (ast.Subscript,)):
                base = base.value
            name = None
            if isinstance(base, ast.Name) and base.id not in locals_:
                kind_, gq = prog.resolve(f.module, base.id)
                if kind_ == "var":
                    name = gq
            elif isinstance(base, ast.Attribute) and base.attr in class_tables and not is_self_attr(base) or (
                    isinstance(base, ast.Attribute) and base.attr in class_tables):
                name = class_tables[base.attr]
            if name is None:
                continue
            allowed = KNOWN_WRITERS.get(name, set())
            why_ok = "registered writer"
            okw = q in allowed
            if not okw and f.cls is None and f.parent is None and name.rsplit(".", 1)[0] == f.module.name:
                # a registration helper of the registry's own module, called only by that module's top-level statements (at
                # import): the module's own update, written as a function
                sites = [(m_, c_) for m_ in prog.modules.values() for c_ in ast.walk(m_.tree)
                         if isinstance(c_, ast.Call) and (dotted(c_.func) or "").split(".")[-1] == f.name]
                top = [c_ for st_ in f.module.tree.body if isinstance(st_, ast.Expr) for c_ in [st_.value] if isinstance(c_, ast.Call)
                       and isinstance(c_.func, ast.Name) and c_.func.id == f.name]
                refs = [n_ for m_ in prog.modules.values() for n_ in ast.walk(m_.tree)
                        if (isinstance(n_, ast.Name) and n_.id == f.name or isinstance(n_, ast.Attribute) and n_.attr == f.name or isinstance(n_, ast.alias) and n_.name == f.name)]
                if top and len(sites) == len(top) and all(m_ is f.module for m_, _c in sites) and len(refs) == len(top):
                    okw, why_ok = True, f"called only by {len(top)} top-level statement(s) of {f.module.name} (the module's own registration)"
            obl(rep, f, node, "R7.3", okw, f"`{short(node, 60)}` writes long-lived `{name}`",
                why_ok, f"{q} mutates the long-lived object `{name}` ({kind}): state leaks between designs / calls")
    # module-level statements that write registries (the module's own update)
    for m in prog.modules.values():
        for node in m.tree.body:
            if isinstance(node, ast.Expr) and isinstance(node.value, ast.Call) and isinstance(node.value.func, ast.Attribute) \
                    and node.value.func.attr in DF.INPLACE_METHODS and isinstance(node.value.func.value, ast.Name):
                gq = f"{m.name}.{node.value.func.value.id}"
                rep.check(f"{m.name}.<module>" in KNOWN_WRITERS.get(gq, set()), "R7.3", f"{m.relpath}:{node.lineno}", m.name,
                          f"module-level `{short(node, 50)}`", "the module's own registration", f"unexpected module-level mutation of {gq}")
    # mutable defaults, global statements, memoisation decorators
    for q, f in sorted(prog.functions.items()):
        a = f.node.args
        for d in list(a.defaults) + [x for x in a.kw_defaults if x is not None]:
            if isinstance(d, (ast.Dict, ast.List, ast.Set)) or (isinstance(d, ast.Call) and dotted(d.func) in ("dict", "list", "set")):
                obl(rep, f, d, "R7.3", False, f"default argument `{unparse(d)}`", "", "mutable default argument: state shared across calls")
        for n in walk_local(f.node):
            if isinstance(n, (ast.Global, ast.Nonlocal)) and isinstance(n, ast.Global):
                obl(rep, f, n, "R7.3", False, f"`{unparse(n)}`", "", "global statement: a function re-binds module state")
        for d in f.decorators:
            if d and (d in MEMO_DECORATORS or d.split(".")[-1] in {x.split(".")[-1] for x in MEMO_DECORATORS}):
                obl(rep, f, f.node, "R7.3", False, f"decorator @{d} on {f.name}", "",
                    "memoisation keeps results (and the objects they reference) alive across calls: two designs built from the same "
                    "formula would share one Model / evaluation state")
    for q in ("model_description.model_description", "matrices.design_matrices", "resolver.Resolver.resolve", "terms.call_resolver.CallResolver.resolve"):
        f = prog.fn(q)
        obl(rep, f, f.node, "R7.3", not [d for d in f.decorators if d], f"{q.split('.')[-1]} is undecorated (no caching of descriptions/designs)", str(f.decorators))
    # positive controls: the detectors must recognise these
    ctl = ast.parse("CACHE = {}\nclass K:\n    alpha = {}\n    def f(self, x=[]):\n        global CACHE\n").body
    if not (_is_mutable_value(ctl[0].value) and _is_mutable_value(ctl[1].body[0].value) and isinstance(ctl[1].body[1].args.defaults[0], ast.List)
            and isinstance(ctl[1].body[1].body[0], ast.Global)):
        raise AnalysisError("R7.3 positive control failed")
    for q in KNOWN_GLOBALS:
        modq, _, name = q.rpartition(".")
        if modq not in prog.modules or name not in prog.modules[modq].globals:
            rep.info("R7.3", "formulae:1", q, f"known long-lived binding `{q}` no longer exists", "inventory entry is stale (harmless)")


def _subclass_of(prog, c, root):
    seen = set()
    work = [c]
    while work:
        k = work.pop()
        if k.qual in seen:
            continue
        seen.add(k.qual)
        for b in k.node.bases:
            d = dotted(b)
            if d is None:
                continue
            kind, q = prog.resolve(k.module, d.split(".")[0]) if "." not in d else (None, None)
            if kind == "class" and q in prog.classes:
                if prog.classes[q] is root:
                    return True
                work.append(prog.classes[q])
    return False


def r7_4(prog, rep, pp):
    for q in sorted(pp.stateful):
        cls = prog.classes[q]
        init = cls.methods.get("__init__")
        inited = set()
        if init is not None:
            for n in walk_local(init.node):
                if isinstance(n, ast.Assign):
                    for t in n.targets:
                        if is_self_attr(t):
                            inited.add(t.attr)
        written = set()
        for mn, m in cls.methods.items():
            if mn == "__init__":
                continue
            for root in DF.function_nodes(m):
                for n in ast.walk(root):
                    if isinstance(n, ast.Attribute) and isinstance(n.ctx, ast.Store) and isinstance(n.value, ast.Name) and n.value.id == "self":
                        written.add(n.attr)
                    if isinstance(n, ast.Subscript) and isinstance(n.ctx, ast.Store) and is_self_attr(n.value):
                        written.add(n.value.attr)
        missing = sorted(written - inited)
        rep.check(not missing, "R7.4", cls.where, cls.qual, f"{cls.name}: every attribute written by its methods is initialised per instance in __init__",
                  f"{sorted(written)}", f"{cls.name} writes {missing} which __init__ does not create: the state would live on the class or be undefined")
        # instances are created with no arguments by LazyCall.eval
        if init is not None:
            rep.check(len(init.params) == 1, "R7.4", init.where, init.qual, f"{cls.name}() takes no constructor arguments (instantiated as callee())", nontrivial=False)
    # who instantiates registry classes
    names = {prog.classes[q].name for q in pp.stateful}
    for q, f in sorted(prog.functions.items()):
        for c in calls_in(f.node):
            if isinstance(c.func, ast.Name) and c.func.id in names:
                obl(rep, f, c, "R7.4", False, f"`{short(c)}`", "", "a stateful transform is instantiated outside LazyCall.eval: the instance is not per call site")


# ------------------------------------------------------------------------------------------
def r7_5(prog, rep, pp):
    te = pp.te
    roots = ["formulae.matrices.design_matrices", "formulae.model_description.model_description"] + predpath.ROOTS
    reach = te.reachable(roots)
    rep.extra["design_path_functions"] = len(reach)
    frame_params = {"data", "data_mask", "x", "value", "successes", "trials", "namespaces", "dicts", "outer_namespace", "extra_namespace"}
    n = 0
    for q in sorted(reach):
        f = prog.functions[q]
        if f.parent is not None:
            continue
        sites = DF.inplace_sites(f)
        fr = None
        for node, target, kind, root in sites:
            base = target
            while isinstance(base, ast.Subscript):
                base = base.value
            if isinstance(base, ast.Attribute):
                # d.col = v / d.index = ... on a parameter
                b2 = base
                while isinstance(b2, ast.Attribute):
                    b2 = b2.value
                if not (isinstance(b2, ast.Name) and b2.id in f.params and b2.id != "self" and b2.id in frame_params):
                    continue
                base = b2
            if not isinstance(base, ast.Name) or base.id == "self":
                continue
            if base.id not in frame_params or base.id not in f.params:
                continue
            if root is not f.node:
                continue
            if fr is None:
                fr = DF.Freshness(f)
            try:
                at = fr.cfg.node_of(node)
            except AnalysisError:
                continue
            defs = fr.IN.get(at, {}).get(base.id, frozenset())
            if "param" in defs:
                n += 1
                if kind == "augmented assignment" and isinstance(node.value, ast.Constant):
                    continue
                obl(rep, f, node, "R7.5", False, f"`{short(node, 70)}` ({kind} on parameter `{base.id}`)", "",
                    f"the caller's object `{base.id}` is mutated in place ({pp.chain(q) if q in pp.path else q})")
        # attribute stores on frame parameters: data.index = ..., data.columns = ...
        for s in walk_local(f.node):
            tg = s.targets if isinstance(s, ast.Assign) else [s.target] if isinstance(s, ast.AugAssign) else []
            for t in tg:
                if isinstance(t, ast.Attribute) and isinstance(t.value, ast.Name) and t.value.id in f.params and t.value.id in frame_params:
                    obl(rep, f, s, "R7.5", False, f"`{short(s, 70)}`", "", f"attribute of the caller's `{t.value.id}` is re-assigned")
    dm = prog.fn("matrices.design_matrices")
    from . import C09
    try:
        D, leaves, filtered = C09.frames_summary(prog, dm)
    except AnalysisError as e:
        rep.defer(f"R7.5: {e}")
        D, leaves, filtered = None, [], set()
    p_data = dm.params[1]
    fresh = [x for x in leaves if x[1] in filtered or (x[1] == D and D is not None and D.startswith((f"{p_data}[", f"{p_data}.loc[")))]
    stale = [x for x in leaves if x not in fresh]
    obl(rep, dm, stale[0][3] if stale else dm.node, "R7.5", bool(leaves) and not stale,
        "design_matrices hands only new frames (column subset, row filter) to the design, never the caller's own frame object",
        f"{len(leaves)} symbolic frame value(s)", f"the design can be built from {sorted({x[1] for x in stale})[:2]}: the caller's frame itself "
        "(or something derived from it in place) is kept and later operations reach it")
    # namespace writes
    bad = []
    for q, f in sorted(prog.functions.items()):
        for s in ast.walk(f.node):
            tg = s.targets if isinstance(s, ast.Assign) else [s.target] if isinstance(s, ast.AugAssign) else []
            for t in tg:
                if isinstance(t, ast.Subscript) and any(k in unparse(t.value) for k in ("namespace", "f_locals", "f_globals", "_namespaces")):
                    bad.append((f, s))
            if isinstance(s, ast.Call) and isinstance(s.func, ast.Attribute) and s.func.attr in ("update", "setdefault", "pop", "clear", "__setitem__") \
                    and any(k in unparse(s.func.value) for k in ("namespace", "f_locals", "f_globals")):
                bad.append((f, s))
    for f, s in bad:
        obl(rep, f, s, "R7.5", False, f"`{short(s, 70)}`", "", "the caller's namespace is written")
    anchor = prog.fn("environment.VarLookupDict.__setitem__")
    rets = [s for s in walk_local(anchor.node) if isinstance(s, ast.Assign)]
    obl(rep, anchor, anchor.node, "R7.5", len(rets) == 1 and unparse(rets[0].targets[0]) == f"self._dicts[0][{anchor.params[1]}]",
        "VarLookupDict.__setitem__ can only reach its private first dict (never a user namespace)")
    obl(rep, anchor, anchor.node, "R7.5", not bad, "no package code writes through a namespace / frame dict", f"{len(prog.functions)} functions scanned")
    # encoding objects (Treatment(), Sum(), user subclasses of Encoding) are created by the USER and handed in by name
    # (`C(x, enc)`): they live in the caller's namespace and may serve several factors and several designs, so nothing but
    # their constructor may write to them
    enc_root = prog.cls("categorical.Encoding")
    enc_classes = [c for c in prog.classes.values() if c is enc_root or _subclass_of(prog, c, enc_root)]
    n_enc = 0
    for c in sorted(enc_classes, key=lambda c: c.qual):
        for mn, m in sorted(c.methods.items()):
            if mn in ("__init__", "__new__"):
                continue
            n_enc += 1
            writes = [(node, attr, kind) for node, recv, attr, kind, root in _state_writes(m)
                      if isinstance(recv, ast.Name) and recv.id in (m.params[:1] or ["self"])]
            for node, attr, kind in writes:
                obl(rep, m, node, "R7.5", False, f"`{short(node, 70)}` ({kind} on the encoding object)", "",
                    f"{c.name}.{mn} writes `self.{attr}`: the encoding object belongs to the caller (it is passed by name and can be used "
                    "for several factors and designs), so state kept on it leaks from one evaluation into the next")
    obl(rep, enc_root.methods.get("__init__") or next(iter(enc_root.methods.values())), enc_root.node, "R7.5", n_enc >= 4,
        "the methods of the encoding classes never write to the encoding object", f"{len(enc_classes)} classes, {n_enc} methods scanned")
    inplace_kw = []
    for q, f in sorted(prog.functions.items()):
        for c in calls_in(f.node, local=False):
            for k in c.keywords:
                if k.arg == "inplace" and not (isinstance(k.value, ast.Constant) and k.value.value is False):
                    inplace_kw.append((f, c))
    for f, c in inplace_kw:
        obl(rep, f, c, "R7.5", False, f"`{short(c, 70)}`", "", "pandas inplace=True mutates a frame that may be the caller's")
    obl(rep, dm, dm.node, "R7.5", not inplace_kw, "no inplace=True anywhere in the package")


def r7_6(prog, rep, pp):
    sites = []
    for q, f in sorted(prog.functions.items()):
        for c in calls_in(f.node):
            if dotted(c.func) == "DesignMatrices":
                sites.append((f, c))
    ok = len(sites) == 1 and sites[0][0].qual == "formulae.matrices.design_matrices"
    f, c = sites[0] if sites else (prog.fn("matrices.design_matrices"), None)
    obl(rep, f, c or f.node, "R7.6", ok, "DesignMatrices is constructed only in design_matrices", "", f"constructed in {[s[0].qual for s in sites]}")
    if ok:
        arg0 = unparse(c.args[0])
        defs = [s for s in walk_local(f.node) if isinstance(s, ast.Assign) and unparse(s.targets[0]) == arg0]
        ok2 = len(defs) == 1 and unparse(defs[0].value) == "model_description(formula)"
        obl(rep, f, defs[0] if defs else c, "R7.6", ok2, "its Model is the result of model_description(formula) of the same invocation",
            "", "the Model handed to DesignMatrices is not freshly parsed in this call (designs would share term objects)")
    md = prog.fn("model_description.model_description")
    cached = [n for n in ast.walk(md.node) if isinstance(n, ast.Subscript) and isinstance(n.ctx, ast.Store)]
    obl(rep, md, md.node, "R7.6", not cached and not md.decorators, "model_description keeps no description (no store, no decorator)")


def r7_7(prog, rep, pp):
    banned = {"random", "time", "uuid", "secrets", "datetime"}
    for m in prog.modules.values():
        for local, target in m.imports.items():
            root = target.split(".")[0]
            rep.check(root not in banned and not target.startswith("numpy.random"), "R7.7", f"{m.relpath}:1", m.name,
                      f"import {target}", "", f"module {m.name} imports {target}: results may depend on the clock / a random source", nontrivial=False)
    for q, f in sorted(prog.functions.items()):
        for c in calls_in(f.node, local=False):
            d = dotted(c.func) or ""
            if d.startswith("np.random") or d.startswith("random.") or d in ("id",) and not q.endswith("Environment._namespace_ids"):
                obl(rep, f, c, "R7.7", False, f"`{short(c)}`", "", "source of non-determinism")
            if d == "hash" and not f.name == "__hash__":
                obl(rep, f, c, "R7.7", False, f"`{short(c)}`", "", "hash() outside __hash__: string hashes vary between processes")
    # iteration over sets
    te = pp.te
    n = 0
    from ..hashorder import HashOrderFlow
    flow = HashOrderFlow(prog, te, _is_set_expr)
    filled = {}
    for sf, snode, sname, swhy in flow.sources:
        filled.setdefault(sf.qual, []).append((snode, sname, swhy))
    for q, f in sorted(prog.functions.items()):
        setvars = set()
        for s in ast.walk(f.node):
            if isinstance(s, ast.Assign) and isinstance(s.targets[0], ast.Name) and _is_set_expr(s.value, setvars):
                setvars.add(s.targets[0].id)
        iters = []
        for n_ in ast.walk(f.node):
            if isinstance(n_, (ast.For, ast.comprehension)):
                iters.append((n_, n_.iter))
            if isinstance(n_, ast.Call) and dotted(n_.func) in ("list", "tuple", "enumerate", "iter", "next") and n_.args:
                iters.append((n_, n_.args[0]))
            if isinstance(n_, ast.Call) and isinstance(n_.func, ast.Attribute) and n_.func.attr == "join" and n_.args:
                iters.append((n_, n_.args[0]))
        parents = {}
        for p_ in ast.walk(f.node):
            for ch in ast.iter_child_nodes(p_):
                parents[id(ch)] = p_
        for node, it in iters:
            if _is_set_expr(it, setvars) or (isinstance(it, ast.Attribute) and it.attr == "efactors"):
                # passing through sorted(...) canonicalises the order
                up, through_sorted = node, False
                while id(up) in parents:
                    up = parents[id(up)]
                    if isinstance(up, ast.Call) and dotted(up.func) in ("sorted", "np.sort", "np.unique", "set", "frozenset", "len", "any", "all"):
                        through_sorted = True
                        break
                    if isinstance(up, ast.stmt):
                        break
                if through_sorted:
                    continue
                n += 1
                key = (q, unparse(node) if isinstance(node, ast.Call) and dotted(node.func) in ("list", "tuple") else unparse(it))
                reason = SET_ITERATION_OK.get(key) or _order_insensitive_consumer(f, node, parents)
                if reason is None and isinstance(node, ast.For):
                    # the loop only fills containers whose later uses are followed through the program (below)
                    mine = [(sn, nm, w) for sn, nm, w in filled.get(q, []) if any(sn is x for b in node.body for x in ast.walk(b))]
                    effects = [x for b in node.body for x in ast.walk(b) if isinstance(x, (ast.Assign, ast.AugAssign, ast.Return, ast.Yield))
                               or (isinstance(x, ast.Expr) and isinstance(x.value, ast.Call))]
                    if mine and len(effects) == len(mine):
                        reason = "; ".join(w for _sn, _nm, w in mine) + " - every use of that container is followed (hash-order flow)"
                construct = f"iteration over the set `{unparse(it)}`" + (f" in `{short(node, 50)}`" if isinstance(node, ast.Call) else "")
                # passing through sorted(...) is always fine
                obl(rep, f, node if hasattr(node, "lineno") else f.node, "R7.7", reason is not None, construct,
                    f"order-insensitive consumer: {reason}",
                    "the iteration order of a set (string hashing, varies between processes) can reach labels, columns or level order")
    rep.extra["set_iterations_examined"] = n
    uses, examined = flow.order_sensitive_uses()
    reached = sorted(q for q, e in flow.env.items() if any(d == 0 for d in e.values()))
    for sf, snode, sname, swhy in flow.sources:
        mine = [u for u in uses]
        obl(rep, sf, snode, "R7.7", True, f"hash-ordered container `{sname}`", f"{swhy}; followed into {len(reached)} function(s): "
            + ", ".join(r.split('formulae.')[-1] for r in reached)[:300])
    for uf, unode, utxt, how in uses:
        reason = _order_insensitive_consumer(uf, unode, flow._parents[uf.qual])
        if reason is not None:
            obl(rep, uf, unode, "R7.7", True, f"`{short(unode, 70)}` over a hash-ordered container", f"order-insensitive consumer: {reason}")
            continue
        obl(rep, uf, unode, "R7.7", False, f"`{short(unode, 70)}`", "",
            f"`{utxt}` is a container filled in the iteration order of a set (string hashing, varies between interpreter runs) and its "
            f"element order is observed here ({how}): term, column or label order can differ from run to run")
    if flow.sources and (len(reached) < 6 or examined < 20):
        raise AnalysisError(f"R7.7: the hash-order flow reaches only {len(reached)} function(s) / {examined} use(s) "
                            "(floor 6 / 20 confirmed by hand: pick_contrast -> pick_contrasts -> Model.eval -> set_data / create_extra_term)")
    rep.extra["hash_ordered_uses_examined"] = examined
    rep.extra["hash_ordered_functions"] = reached


def _order_insensitive_consumer(f, node, parents):
    """structural reasons why the order of a set iteration cannot reach labels / columns:
    (a) `frame[list(S)]`: a column selection by name - every later access is by name;
    (b) the elements only feed the text of an exception / warning / log message."""
    par = parents.get(id(node))
    if isinstance(node, ast.Call) and dotted(node.func) in ("list", "tuple") and isinstance(par, ast.Subscript) and par.slice is node \
            and isinstance(par.value, ast.Name) and par.value.id in f.params:
        return "only selects columns of the frame by name; every later access is by name"
    # find the statement; if it binds a local, all uses of that local must be inside raise / warn / log calls
    st = node
    while id(st) in parents and not isinstance(st, ast.stmt):
        st = parents[id(st)]
    if isinstance(st, ast.Raise):
        return "feeds the text of the exception only"
    if isinstance(st, ast.Expr) and isinstance(st.value, ast.Call) and (dotted(st.value.func) or "") in ("warnings.warn", "_log.info", "_log.debug", "_log.warning", "print"):
        return "feeds the text of a warning / log message only"
    if isinstance(st, ast.Assign) and len(st.targets) == 1 and isinstance(st.targets[0], ast.Name):
        name = st.targets[0].id
        uses = [x for x in ast.walk(f.node) if isinstance(x, ast.Name) and x.id == name and isinstance(x.ctx, ast.Load)]
        ok = bool(uses)
        for u in uses:
            up = u
            inside = False
            while id(up) in parents:
                up = parents[id(up)]
                if isinstance(up, ast.Raise) or (isinstance(up, ast.Call) and (dotted(up.func) or "") in ("warnings.warn", "_log.info", "_log.debug", "_log.warning")):
                    inside = True
                    break
                if isinstance(up, ast.Assign) and (up is st or (len(up.targets) == 1 and isinstance(up.targets[0], ast.Name) and up.targets[0].id == name)):
                    inside = True  # the re-binding itself (x = [str(v) for v in x])
                    break
                if isinstance(up, (ast.If, ast.While)) and any(u is z for z in ast.walk(up.test)):
                    inside = True  # emptiness / truth test: order-free
                    break
                if isinstance(up, ast.Call) and dotted(up.func) in ("len", "bool", "sorted", "set", "frozenset", "any", "all"):
                    inside = True
                    break
                if isinstance(up, ast.stmt):
                    break
            ok = ok and inside
        if ok:
            return "feeds the text of the error / warning only"
    return None


def _is_set_expr(e, setvars):
    if isinstance(e, (ast.Set, ast.SetComp)):
        return True
    if isinstance(e, ast.Name):
        return e.id in setvars
    if isinstance(e, ast.Call):
        d = dotted(e.func)
        if d in ("set", "frozenset"):
            return True
        if isinstance(e.func, ast.Attribute) and e.func.attr in ("union", "intersection", "difference", "symmetric_difference") \
                and (_is_set_expr(e.func.value, setvars) or "var_names" in unparse(e.func.value)):
            return True
    if isinstance(e, ast.BinOp) and isinstance(e.op, (ast.Sub, ast.BitOr, ast.BitAnd)) and (_is_set_expr(e.left, setvars) or _is_set_expr(e.right, setvars)):
        return True
    return False


from ..core import guard_rules  # noqa: E402

guard_rules(globals())

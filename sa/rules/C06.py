"""C06 - new data reproduces the training encoding: the freeze-at-training discipline (R6.1 .. R6.6)."""
import ast

from ..core import (
    AnalysisError,
    obl,
    unparse,
    short,
    dotted,
    is_self_attr,
    walk_local,
    calls_in,
    block_raises,
)
from ..cfg import cfg_of
from .. import dataflow as DF
from .. import predpath
from . import shared

EXPLANATION = (
    "The matrix identity is a runtime relation; what makes it hold is a discipline visible in the code. On the "
    "typed call graph (closed-world type inference, visitor double dispatch resolved per call site, the dynamic "
    "callee of LazyCall.eval resolved to the statically extracted registry) the functions reachable from the three "
    "evaluate_new_data entry points are computed. R6.1 fit-once typestate: in every registered stateful transform "
    "each store of a data-tainted value into self.<attr> is under a freshness guard (not self.flag / k not in "
    "self.memo / self.x is None), interprocedurally, and the guard is closed on every normal exit. R6.2 "
    "row-locality: every aggregate (reduction across rows, catalogue of ~80 numpy/pandas/builtin operations) of a "
    "value tainted by the new frame on that path is under a closed fit-once guard, in a reasoned allow-list, or a "
    "universal reduction feeding only a raise. R6.3 the remembered coding is reused, never re-derived. R6.4 every "
    "object with per-term evaluation state has one holder (each Term(...)/GroupSpecificTerm(...) constructor site "
    "copies, freshly builds or moves its sources). R6.5 training and prediction siblings combine parts with the "
    "same combinator, argument order and component order, and the same call object/environment. R6.6 every "
    "eval_new_data* returns a value that depends on its data parameter on every path."
    ' R6.9 no axis-less squeeze on the evaluation path (a one-row frame keeps its row axis).'
)
ASSUMPTIONS = [
    "user-registered stateful transforms and user functions from the caller's namespace are not analysed (assumed pure and fit-once)",
    "the aggregation catalogue in sa/dataflow.py lists the numpy/pandas/builtin operations that reduce across rows; element-wise operations are row-local",
    "copy.deepcopy yields objects that share no evaluation state with their source",
]

# aggregates of the new frame that are allowed on the prediction path, with the reason
ALLOW = {
    ("formulae.terms.variable.Variable.eval_new_data_categoric", "set", "x"):
        "decides only which unseen-level policy applies (C10); rows with seen levels are encoded identically on both branches",
    ("formulae.terms.call.Call.eval_new_data_categoric", "set", "x"):
        "decides only which unseen-level policy applies (C10); rows with seen levels are encoded identically on both branches",
    ("formulae.terms.terms.GroupSpecificTerm.eval_new_data", ".any", "def:~<self.factor.eval_new_data(data)>.any(axis=1)"):
        "adds the trailing new-group block of C10; existing blocks are unchanged",
}


def _mask_names(text, f):
    """replace locals that are bound once by `<their definition>` (one level), so that an allow-list key does not depend on names"""
    import re
    defs = {}
    for s_ in walk_local(f.node):
        if isinstance(s_, ast.Assign) and len(s_.targets) == 1 and isinstance(s_.targets[0], ast.Name):
            defs.setdefault(s_.targets[0].id, []).append(unparse(s_.value))
    for name, vals in defs.items():
        first = vals[0]
        text = re.sub(rf"\b{re.escape(name)}\b", f"<{first}>", text)
    return text


def run(prog, rep, tier):
    pp = predpath.get(prog)
    rep.extra["prediction_path_functions"] = sorted(pp.path)
    rep.extra["registry"] = {k: v[1] for k, v in sorted(pp.registry["transforms"].items())}
    rep.extra["transient_classes"] = sorted(pp.transient)
    if len(pp.path) < 40:
        raise AnalysisError(f"prediction path has only {len(pp.path)} functions (floor 40): call graph lost precision or anchors moved")
    r6_1(prog, rep, pp)
    r6_2(prog, rep, pp)
    r6_3(prog, rep, pp)
    n = shared.ownership_rule(prog, rep, "R6.4")
    if n is not None and n < 12:
        raise AnalysisError(f"R6.4: only {n} Term/GroupSpecificTerm constructor sites found in terms.py (floor 12)")
    r6_5(prog, rep, pp)
    r6_6(prog, rep, pp)
    # R6.7 rows of groups seen in training keep their slots: the new-group block is decided from the factor's indicators alone
    shared.new_group_block(prog, rep, "R6.7")
    # a new frame may hold a single observation: its blocks keep their row axis (C17's R17.10)
    shared.no_axisless_squeeze(prog, rep, "R6.9")
    # center / scale / bs / poly freeze their parameters because the names resolve to formulae's stateful classes: a function
    # of the same name in the caller's namespace must not capture them (C11's R11.1 / R11.2, reported here as R6.8)
    from . import C11
    from ..core import reuse_rule
    reuse_rule(rep, C11.r11_2, "R6.8", prog)
    reuse_rule(rep, C11.r11_1, "R6.8", prog)
    rep.floor("R6.1", 8)
    rep.floor("R6.2", 8)
    rep.floor("R6.3", 6)
    rep.floor("R6.4", 12)
    rep.floor("R6.5", 6)
    rep.floor("R6.6", 10)


# ------------------------------------------------------------------------------------------
def _class_taint(pp, cls):
    """per method of a stateful class: set of data-tainted parameter names, propagated from __call__"""
    call = cls.methods.get("__call__")
    if call is None:
        raise AnalysisError(f"registered transform {cls.qual} has no __call__")
    srcs = {m: set() for m in cls.methods}
    data_param = call.params[1] if len(call.params) > 1 else None
    if data_param is None:
        return srcs, {}
    srcs["__call__"].add(data_param)
    taints = {}
    changed = True
    while changed:
        changed = False
        for mname, m in cls.methods.items():
            if not srcs[mname]:
                continue
            t = DF.taint_closure(m, srcs[mname])
            taints[mname] = t
            for c in calls_in(m.node, local=False):
                if isinstance(c.func, ast.Attribute) and is_self_attr(c.func) and c.func.attr in cls.methods:
                    callee = cls.methods[c.func.attr]
                    ps = callee.params[1:]
                    for p, a in zip(ps, c.args):
                        if DF._names_loaded(a) & t and p not in srcs[callee.name]:
                            srcs[callee.name].add(p)
                            changed = True
                    for k in c.keywords:
                        if k.arg in ps and DF._names_loaded(k.value) & t and k.arg not in srcs[callee.name]:
                            srcs[callee.name].add(k.arg)
                            changed = True
    return srcs, taints


def _guard_for(pp, cls, ctx, m, node):
    g = pp.guard_of(m, node)
    if g is not None:
        return g, m
    g2 = ctx.get(m.name)
    if g2 is not None:
        # the method is only ever entered under a guard at its call sites
        return g2, g2["sites"][0][0]
    return None, None


def r6_1(prog, rep, pp):
    n_classes = 0
    for q in sorted(pp.stateful):
        cls = prog.classes[q]
        n_classes += 1
        srcs, taints = _class_taint(pp, cls)
        ctx = pp.class_guard_context(cls)
        init = cls.methods.get("__init__")
        used_flags = set()
        for mname, m in cls.methods.items():
            t = taints.get(mname)
            if not t:
                continue
            for root in DF.function_nodes(m):
                for s in ast.walk(root):
                    tg = None
                    if isinstance(s, ast.Assign):
                        for x in s.targets:
                            if is_self_attr(x):
                                tg = (x.attr, s, False)
                            elif isinstance(x, ast.Subscript) and is_self_attr(x.value):
                                tg = (x.value.attr, s, True)
                    elif isinstance(s, ast.AugAssign):
                        x = s.target
                        if is_self_attr(x):
                            tg = (x.attr, s, False)
                        elif isinstance(x, ast.Subscript) and is_self_attr(x.value):
                            tg = (x.value.attr, s, True)
                    if tg is None:
                        continue
                    attr, stmt, sub = tg
                    if not (DF._names_loaded(stmt.value) & t):
                        continue  # copied from literal arguments: not a fitted parameter
                    g, where_fn = _guard_for(pp, cls, ctx, m, stmt)
                    construct = f"{cls.name}.{mname}: `{short(stmt, 70)}` (parameter fitted from the data)"
                    if g is None:
                        obl(rep, m, stmt, "R6.1", False, construct, "",
                            f"self.{attr} is estimated from the data argument without a fit-once guard: it is re-estimated from "
                            "every frame that is evaluated (new data no longer reproduces the training encoding)")
                        continue
                    closed, why = pp.guard_closed(cls, where_fn, g)
                    if g["kind"] == "flag":
                        used_flags.add(g["attr"])
                    obl(rep, m, stmt, "R6.1", closed, construct,
                        f"guard `{unparse(g['ifnode'].test)}` ({g['kind']}); {why}",
                        f"guard `{unparse(g['ifnode'].test)}` is never closed: {why}")
        # flag hygiene (only flags that actually guard a fitted parameter)
        flags = set(used_flags)
        for fl in sorted(flags):
            writes = []
            for mname, m in cls.methods.items():
                for n in ast.walk(m.node):
                    if isinstance(n, ast.Assign) and any(is_self_attr(t_, fl) for t_ in n.targets):
                        writes.append((mname, n))
            init_false = [w for w in writes if w[0] == "__init__" and isinstance(w[1].value, ast.Constant) and w[1].value.value is False]
            reopen = [w for w in writes if w[0] != "__init__" and not (isinstance(w[1].value, ast.Constant) and w[1].value.value is True)]
            m0 = cls.methods.get("__init__") or next(iter(cls.methods.values()))
            obl(rep, m0, (init_false[0][1] if init_false else m0.node), "R6.1", len(init_false) == 1 and not reopen,
                f"{cls.name}.{fl}: starts False in __init__, is only ever set to True afterwards", "",
                f"{cls.name}.{fl} is re-opened or not initialised: {[(w[0], short(w[1])) for w in reopen]}")
        # all fitted state lives on the instance: no class-level mutable attributes
        for an, v in cls.class_attrs.items():
            mutable = isinstance(v, (ast.Dict, ast.List, ast.Set)) or (isinstance(v, ast.Call) and dotted(v.func) in ("dict", "list", "set"))
            rep.check(not mutable, "R6.1", cls.where, cls.qual, f"{cls.name}.{an} is not a mutable class attribute", "",
                      f"class-level mutable `{an}` is shared by all instances: parameters fitted for one call site / design leak into others")
    if n_classes < 4:
        raise AnalysisError(f"only {n_classes} stateful transform classes found in the registry (floor 4)")


# ------------------------------------------------------------------------------------------
def _sources(fn):
    a = fn.node.args
    ps = [x.arg for x in a.posonlyargs + a.args + a.kwonlyargs]
    if a.vararg:
        ps.append(a.vararg.arg)
    if a.kwarg:
        ps.append(a.kwarg.arg)
    return {p for p in ps if p not in predpath.NON_DATA_PARAMS}


def _transient_fields(prog, cls):
    """fields of a transient value class that hold (new-frame) data: assigned from a parameter in any method"""
    tainted = set()
    changed = True
    while changed:
        changed = False
        for m in list(cls.methods.values()) + list(cls.setters.values()):
            t = DF.taint_closure(m, _sources(m), tainted_fields=tainted)
            for x in t:
                if x.startswith("self.") and x[5:] not in tainted:
                    tainted.add(x[5:])
                    changed = True
            # property getters returning tainted fields
            if m.is_property:
                for r in walk_local(m.node):
                    if isinstance(r, ast.Return) and r.value is not None and DF._names_loaded(r.value) & {"self." + f for f in tainted}:
                        if m.name not in tainted:
                            tainted.add(m.name)
                            changed = True
    return tainted


def _stmt_of(fn, node):
    """the simple statement (or the test expression of the compound statement) containing node"""
    best = None
    for root in DF.function_nodes(fn):
        for s in ast.walk(root):
            if isinstance(s, ast.stmt) and any(node is x for x in ast.walk(s)):
                if isinstance(s, (ast.If, ast.While)):
                    if any(node is x for x in ast.walk(s.test)):
                        best = s.test
                elif isinstance(s, ast.For):
                    if any(node is x for x in ast.walk(s.iter)):
                        best = s.iter
                elif not isinstance(s, (ast.FunctionDef, ast.ClassDef, ast.With, ast.Try)):
                    best = s
    return best


def _only_feeds_raise(fn, agg):
    """universal reduction inside the test of an `if` whose body raises"""
    for root in DF.function_nodes(fn):
        for i in ast.walk(root):
            if isinstance(i, ast.If) and any(agg.node is x for x in ast.walk(i.test)) and block_raises(i.body):
                return True
    return False


def aggregate_obligations(prog, rep, pp, rule, restrict=None):
    """R6.2 (also used by C16/C08 with a restriction to some functions)"""
    fns = set(pp.path)
    for q in pp.stateful | pp.transient:
        cls = prog.classes[q]
        fns |= {m.qual for m in cls.methods.values()} | {m.qual for m in cls.setters.values()}
    fns |= pp.reg_funcs
    # closures are analysed with their parent
    fns = {q for q in fns if prog.functions[q].parent is None}
    count = 0
    for q in sorted(fns):
        if restrict is not None and q not in restrict:
            continue
        f = prog.functions[q]
        cls = f.cls
        tf = _transient_fields(prog, cls) if cls is not None and cls.qual in pp.transient else ()
        tainted = DF.taint_closure(f, _sources(f), tainted_fields=tf)
        aggs = DF.aggregates(f, tainted)
        stateful = cls is not None and cls.qual in pp.stateful
        ctx = pp.class_guard_context(cls) if stateful else {}
        seen = set()
        for a in aggs:
            st = _stmt_of(f, a.node)
            construct = f"{a.op}({a.arg}) in `{short(st, 80) if st is not None else short(a.node)}`"
            if construct in seen:
                continue
            seen.add(construct)
            count += 1
            key = (q, a.op.lstrip(".") if a.op.startswith(".") else a.op, a.arg)
            key2 = (q, a.op, a.arg)
            # an allow-list entry may name the DEFINITION of a local (so that renaming the local changes nothing)
            ldefs = [s_.value for s_ in walk_local(f.node) if isinstance(s_, ast.Assign) and len(s_.targets) == 1 and unparse(s_.targets[0]) == a.arg]
            if len(ldefs) == 1:
                kd = (q, a.op, "def:" + _mask_names(unparse(ldefs[0]), f))
                if kd in ALLOW:
                    obl(rep, f, a.node, rule, True, construct, "allow-listed: " + ALLOW[kd])
                    continue
            if stateful:
                g, where_fn = _guard_for(pp, cls, ctx, f, a.node)
                if g is not None:
                    closed, why = pp.guard_closed(cls, where_fn, g)
                    obl(rep, f, a.node, rule, closed, construct, f"training-time estimate under fit-once guard `{unparse(g['ifnode'].test)}`; {why}",
                        f"aggregate under guard `{unparse(g['ifnode'].test)}` which is never closed: {why}")
                    continue
            if key2 in ALLOW or key in ALLOW:
                obl(rep, f, a.node, rule, True, construct, "allow-listed: " + (ALLOW.get(key2) or ALLOW.get(key)))
                continue
            if a.universal and _only_feeds_raise(f, a):
                obl(rep, f, a.node, rule, True, construct,
                    "universal reduction of an element-wise predicate that only feeds a raise: subset-closed validation")
                continue
            on_path = pp.chain(q) if q in pp.path else f"registry callable {q}"
            obl(rep, f, a.node, rule, False, construct, "",
                f"aggregate over the rows of the frame being evaluated, not guarded by a fit-once guard ({on_path}): the result for "
                "a row depends on which other rows are in the new frame")
    return count


SIZE_CONTEXT_CALLS = {"np.ones", "np.zeros", "np.empty", "np.full", "np.arange", "range", "np.eye", "np.tile", "np.repeat", "np.linspace"}


def row_count_uses(prog, rep, pp, rule):
    """`X.shape[0]` / `len(X)` of the frame being evaluated may size an allocation or feed a raising test, never a value"""
    fns = set(pp.path) | set(pp.reg_funcs)
    for q in pp.stateful | pp.transient:
        cls = prog.classes[q]
        if "Encoding" in cls.bases or cls.name == "Encoding":
            continue  # encodings receive level lists, not rows
        fns |= {m.qual for m in cls.methods.values()}
    fns = {q for q in fns if not (prog.functions[q].cls is not None and ("Encoding" in prog.functions[q].cls.bases))}
    n = 0
    for q in sorted(fns):
        f = prog.functions[q]
        if f.parent is not None:
            continue
        cls = f.cls
        tf = _transient_fields(prog, cls) if cls is not None and cls.qual in pp.transient else ()
        tainted = DF.taint_closure(f, _sources(f), tainted_fields=tf)
        for root in DF.function_nodes(f):
            parents = {}
            for p_ in ast.walk(root):
                for ch in ast.iter_child_nodes(p_):
                    parents[id(ch)] = p_
            for node in ast.walk(root):
                is_count = False
                if isinstance(node, ast.Subscript) and isinstance(node.value, ast.Attribute) and node.value.attr == "shape" \
                        and unparse(node.slice) == "0" and DF._names_loaded(node.value.value) & tainted:
                    is_count = True
                if isinstance(node, ast.Call) and dotted(node.func) == "len" and node.args and DF._names_loaded(node.args[0]) & tainted:
                    is_count = True
                if not is_count:
                    continue
                n += 1

                def context_of(start):
                    up = start
                    while id(up) in parents:
                        up = parents[id(up)]
                        if isinstance(up, ast.Call) and dotted(up.func) in SIZE_CONTEXT_CALLS:
                            return True, f"sizes the allocation `{dotted(up.func)}(...)`", up
                        if isinstance(up, ast.Compare):
                            return True, "only compared", up
                        if isinstance(up, ast.Call) and isinstance(up.func, ast.Attribute) and up.func.attr == "reshape":
                            return True, "reshape argument", up
                        if isinstance(up, ast.stmt):
                            return False, "", up
                    return False, "", None

                ctx_ok, why, stmt_ = context_of(node)
                if not ctx_ok and isinstance(stmt_, ast.Assign) and stmt_.value is node and len(stmt_.targets) == 1 and isinstance(stmt_.targets[0], ast.Name):
                    # bound to a local once: every use of that local must be a sizing / comparing context
                    nm = stmt_.targets[0].id
                    stores = [x for x in ast.walk(root) if isinstance(x, ast.Name) and x.id == nm and isinstance(x.ctx, ast.Store)]
                    uses = [x for x in ast.walk(root) if isinstance(x, ast.Name) and x.id == nm and isinstance(x.ctx, ast.Load)]
                    if len(stores) == 1 and uses:
                        res = [context_of(u) for u in uses]
                        if all(r[0] for r in res):
                            ctx_ok, why = True, f"bound to `{nm}`, which only {res[0][1]}"
                g = None
                if not ctx_ok and cls is not None and cls.qual in pp.stateful:
                    ctx = pp.class_guard_context(cls)
                    g, wf = _guard_for(pp, cls, ctx, f, node)
                    if g is not None:
                        closed, w2 = pp.guard_closed(cls, wf, g)
                        ctx_ok, why = closed, f"training-time estimate under `{unparse(g['ifnode'].test)}`; {w2}"
                obl(rep, f, node, rule, ctx_ok, f"row count `{short(node)}` of the frame being evaluated in {f.name}", why,
                    "the number of rows of the frame being evaluated is used as a value: results for a row depend on how many other rows are predicted with it")
    return n


def r6_2(prog, rep, pp):
    row_count_uses(prog, rep, pp, "R6.2")
    n = aggregate_obligations(prog, rep, pp, "R6.2")
    if n < 8:
        raise AnalysisError(f"R6.2: only {n} aggregate sites found on the prediction path (floor 8): catalogue or taint analysis is not matching")


def r6_3(prog, rep, pp):
    forbidden = {"code_with_intercept", "code_without_intercept"}
    hits = [q for q in pp.path if q.rsplit(".", 1)[1] in forbidden or q.endswith("ContrastMatrix.__init__")]
    anchor = prog.fn("matrices.CommonEffectsMatrix.evaluate_new_data")
    rep.check(not hits, "R6.3", anchor.where, anchor.qual,
              "no function reachable from evaluate_new_data (re)codes a factor (code_with/without_intercept, ContrastMatrix(...))",
              f"{len(pp.path)} reachable functions examined",
              "; ".join(f"{h} via {pp.chain(h)}" for h in hits) + ": the coding is re-derived at prediction time")
    train_only = ["set_data", "set_type", "set_types", "eval_categoric", "eval_numeric", "eval_categorical_box", "eval_offset",
                  "eval_proportion", "add_extra_terms", "_get_encoding_bools", "_get_encoding_groups", "pick_contrasts"]
    hits = [q for q in pp.path if q.rsplit(".", 1)[1] in train_only and not q.startswith("formulae.transforms.")]
    rep.check(not hits, "R6.3", anchor.where, anchor.qual,
              "no training-time evaluation step (set_type/set_data/eval_categoric/encoding analysis) is reachable from evaluate_new_data",
              "", "; ".join(f"{h} via {pp.chain(h)}" for h in hits) + ": training state is recomputed from the new frame")
    for q in ("terms.variable.Variable.eval_new_data_categoric", "terms.call.Call.eval_new_data_categoric"):
        f = prog.fn(q)
        summ = shared.categoric_summary(prog, f)
        S = summ["facts"]
        obl(rep, f, f.node, "R6.3", S["categorical_all_with_remembered_levels"] and S["categorical_sites"] >= 1,
            "codes come from pd.Categorical(x, categories=self.levels)", f"{S['categorical_sites']} site(s)",
            "a categorical is built without the remembered levels")
        obl(rep, f, f.node, "R6.3", S["matrix_index_sites"] >= 1, "rows are taken from the remembered self.contrast_matrix.matrix")
        obl(rep, f, f.node, "R6.3", S["matrix_indices_from_remembered_levels"],
            "every row index into the remembered contrast matrix is a code taken with respect to the remembered self.levels (on every path)", "",
            f"the contrast matrix is indexed by {summ.get('foreign_index')}: codes that follow the categories of the "
            "new frame, not the levels frozen at training")
        writes = [n for n in ast.walk(f.node) if isinstance(n, ast.Attribute) and isinstance(n.ctx, ast.Store) and is_self_attr(n)]
        obl(rep, f, writes[0] if writes else f.node, "R6.3", not writes, "levels / contrast matrix are not reassigned at prediction")
    for q in ("terms.variable.Variable.eval_new_data", "terms.call.Call.eval_new_data"):
        f = prog.fn(q)
        kinds = [unparse(i.test) for i in walk_local(f.node) if isinstance(i, ast.If)]
        reads_kind = any("self.kind" in k for k in kinds)
        obl(rep, f, f.node, "R6.3", reads_kind, "the remembered kind (numeric/categoric/...) selects the path; the type is not re-detected",
            str(kinds))


def r6_5(prog, rep, pp):
    ts = prog.fn("terms.terms.Term.set_data")
    tn = prog.fn("terms.terms.Term.eval_new_data")

    def reduce_form(f):
        cs = [x for x in calls_in(f.node) if dotted(x.func) in ("reduce", "functools.reduce")]
        if len(cs) != 1 or len(cs[0].args) != 2:
            return None
        from .. import order as O
        lc = O.fold_operand(cs[0].args[1], f)
        if lc is None:
            return None
        return (dotted(cs[0].args[0]), unparse(lc.generators[0].iter), unparse(lc.elt), unparse(lc.generators[0].target))

    a, b = reduce_form(ts), reduce_form(tn)
    ok = a is not None and b is not None and a[0] == b[0] == "get_interaction_matrix" and a[1] == b[1] == "self.components"
    obl(rep, tn, tn.node, "R6.5", ok, "Term.set_data and Term.eval_new_data fold get_interaction_matrix over self.components in the same order",
        f"training {a}; prediction {b}", f"training combines {a}, prediction combines {b}")
    if a and b:
        obl(rep, ts, ts.node, "R6.5", a[2] == f"{a[3]}.value", "training folds the components' stored values", a[2])
        obl(rep, tn, tn.node, "R6.5", b[2] == f"{b[3]}.eval_new_data({tn.params[1]})", "prediction folds the components evaluated on the new frame", b[2])
    # non-interaction branch: single component
    for f, want in ((ts, "self.components[0].value"), (tn, f"self.components[0].eval_new_data({tn.params[1]})")):
        srcs = [unparse(n) for n in ast.walk(f.node) if isinstance(n, (ast.Attribute, ast.Call)) and unparse(n) == want]
        obl(rep, f, f.node, "R6.5", bool(srcs), f"main effect: {want}", nontrivial=False)
    both = [i for f in (ts, tn) for i in walk_local(f.node) if isinstance(i, ast.If) and unparse(i.test) == "self.kind == 'interaction'"]
    obl(rep, tn, tn.node, "R6.5", len(both) == 2, "both siblings select the interaction branch by the remembered self.kind")
    # both GroupSpecificTerm siblings build the same product of the same two operands (decided on abstract values: C05's R5.1)
    from . import C05
    sub = rep.sub()
    C05.r5_1(prog, sub)
    for it in sub.items:
        if "operand of the product" in it["construct"] or "khatri_rao" in it["construct"]:
            it = dict(it)
            it["rule"] = "R6.5"
            rep.items.append(it)
            rep.counts["R6.5"] = rep.counts.get("R6.5", 0) + 1
    # Call: same call object, same environment
    st = prog.fn("terms.call.Call.set_type")
    en = prog.fn("terms.call.Call.eval_new_data")
    e1 = [unparse(x) for x in calls_in(st.node) if unparse(x.func) == "self.call.eval"]
    c2 = [x for x in calls_in(en.node) if unparse(x.func) == "self.call.eval"]
    e2 = [unparse(x) for x in c2]
    ok = e1 == [f"self.call.eval({st.params[1]}, self.env)"] and bool(e2) and set(e2) == {f"self.call.eval({en.params[1]}, self.env)"}
    if ok and len(c2) > 1:
        # several spellings of the one evaluation, on mutually exclusive paths (one per kind)
        cg = cfg_of(en)
        stmts = []
        for x in c2:
            holder = [s_ for s_ in walk_local(en.node) if isinstance(s_, ast.stmt) and s_ is not en.node
                      and not isinstance(s_, (ast.If, ast.For, ast.While, ast.Try, ast.With, ast.FunctionDef))
                      and any(x is y for y in ast.walk(s_))]
            stmts.append(cg.node_of(holder[0]) if holder else None)
        for i_, a_ in enumerate(stmts):
            for b_ in stmts[i_ + 1:]:
                if a_ is None or b_ is None or a_ == b_:
                    ok = False
                    continue
                ra = cg.reachable_edges([(a_, s_) for s_ in cg.succ[a_]])
                rb = cg.reachable_edges([(b_, s_) for s_ in cg.succ[b_]])
                if b_ in ra or a_ in rb:
                    ok = False
    obl(rep, en, en.node, "R6.5", ok, "training and prediction evaluate the SAME self.call object in the SAME self.env "
        "(the per-call-site transform instance is reused, never re-resolved from text)", f"{e1} / {e2}", f"training {e1}, prediction {e2}")
    lc = prog.fn("terms.call_resolver.LazyCall.eval")
    g = [i for i in walk_local(lc.node) if isinstance(i, ast.If) and "self.stateful_transform is None" in unparse(i.test)]
    ok = len(g) == 1 and any(isinstance(s, ast.Assign) and is_self_attr(s.targets[0], "stateful_transform") and unparse(s.value) == "callee()" for s in g[0].body)
    obl(rep, lc, g[0] if g else lc.node, "R6.5", ok, "the transform instance is created once per call site (write-once under `is None`) and stored on the LazyCall")
    uses = [i for i in walk_local(lc.node) if isinstance(i, ast.If) and unparse(i.test) == "self.stateful_transform"
            and any(isinstance(s, ast.Assign) and unparse(s.targets[0]) == "callee" and unparse(s.value) == "self.stateful_transform" for s in i.body)]
    obl(rep, lc, uses[0] if uses else lc.node, "R6.5", len(uses) == 1, "a stored instance replaces the looked-up class as the callee on every later evaluation")


def _strong_taint(f, sources):
    """names ALL of whose definitions depend on `sources` (a definition that only refers to the
    name itself, e.g. `v = v.to_numpy()`, is neutral)."""
    defs = {}
    for n in walk_local(f.node):
        if isinstance(n, ast.Assign):
            for t in n.targets:
                if isinstance(t, ast.Name):
                    defs.setdefault(t.id, []).append(n.value)
        elif isinstance(n, ast.AugAssign) and isinstance(n.target, ast.Name):
            defs.setdefault(n.target.id, []).append(n.value)
    strong = set(sources)
    changed = True
    while changed:
        changed = False
        for name, vals in defs.items():
            if name in strong:
                continue
            ok, any_real = True, False
            for v in vals:
                loaded = DF._names_loaded(v)
                local_names = set(defs) | set(f.params) | {x for x in loaded if x.startswith("self.")}
                others = (loaded - {name}) & local_names
                if not others and name in loaded:
                    continue  # neutral self-update
                any_real = True
                if not (others & strong):
                    ok = False
            if ok and any_real:
                strong.add(name)
                changed = True
    return strong


def r6_6(prog, rep, pp):
    targets = []
    for q, f in sorted(prog.functions.items()):
        if f.name.startswith("eval_new_data") and f.cls is not None and f.cls.qual.startswith("formulae.terms."):
            targets.append(f)
    for f in targets:
        if len(f.params) < 2:
            continue
        src = {f.params[1]}
        tainted = _strong_taint(f, src)
        rets = [n for n in walk_local(f.node) if isinstance(n, ast.Return)]
        ok = bool(rets) and not cfg_of(f).falls_off()
        bad = []
        for r in rets:
            if r.value is None or not (DF._names_loaded(r.value) & tainted):
                bad.append(short(r))
        obl(rep, f, rets[0] if rets else f.node, "R6.6", ok and not bad,
            f"{f.qual.split('.', 2)[2]}: every returned value depends on the new frame `{f.params[1]}`", "",
            f"returns {bad} which do not depend on the new frame (cached training data is returned)" if bad else "a path returns nothing")


from ..core import guard_rules  # noqa: E402

guard_rules(globals())

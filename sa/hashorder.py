"""Hash-ordered containers.

A container filled while iterating over a set (a dict receiving one key per element, a list receiving one element per
element) carries the set's iteration order: for sets of strings (or of objects hashed by a string) that order differs from
one interpreter run to the next.  Using such a container by key (`d[k]`, `d.get(k)`, `k in d`) is order-free; iterating over
it is not.  This module finds the containers (sources), follows them through the program (locals, returns, parameters,
nesting in lists / dicts) and reports every order-sensitive use.

depth d of a value: 0 = the hash-ordered container itself, n = a container nested n levels above it (list of ..., dict
name -> ...).  The analysis is flow-insensitive inside a function and uses the typed call graph for calls.
"""
import ast

from .core import AnalysisError, dotted, unparse, short

ORDER_FREE_CALLS = {"sorted", "set", "frozenset", "len", "any", "all", "isinstance", "hasattr", "bool", "type", "sum", "min", "max",
                    "np.sort", "np.unique", "id", "repr", "str", "print"}
ITERATING_CALLS = {"list", "tuple", "enumerate", "iter", "next", "zip", "map", "filter", "reversed", "np.array", "np.asarray",
                   "pd.DataFrame", "pd.Series", "np.column_stack", "np.hstack", "reduce", "functools.reduce", "chain", "itertools.chain"}
KEEP_ORDER_CALLS = {"dict", "deepcopy", "copy.deepcopy", "copy.copy", "copy", "OrderedDict", "collections.OrderedDict"}


class HashOrderFlow:
    def __init__(self, prog, te, is_set_expr):
        self.prog = prog
        self.te = te
        self.is_set_expr = is_set_expr
        self.env = {q: {} for q in prog.functions}      # qual -> {local name: depth}
        self.ret = {}                                    # qual -> depth
        self.fields = {}                                 # attribute name -> depth
        self.sources = []                                # (fn, node, name, why)
        self.changed = True
        self._parents = {}
        for q, f in prog.functions.items():
            par = {}
            for p_ in ast.walk(f.node):
                for ch in ast.iter_child_nodes(p_):
                    par[id(ch)] = p_
            self._parents[q] = par
        self._seed()
        n = 0
        while self.changed:
            self.changed = False
            n += 1
            if n > 40:
                raise AnalysisError("hash-order flow: no fixpoint after 40 rounds")
            for q, f in sorted(prog.functions.items()):
                self._function(f)

    # ---- lattice ---------------------------------------------------------------------------
    def _set(self, store, key, d):
        if d is None:
            return
        old = store.get(key)
        new = d if old is None else min(old, d)   # the shallowest nesting is the most dangerous: keep it
        if new != old:
            store[key] = new
            self.changed = True

    # ---- sources ---------------------------------------------------------------------------
    def _under_order_free(self, f, node):
        par = self._parents[f.qual]
        up = node
        while id(up) in par:
            up = par[id(up)]
            if isinstance(up, ast.Call) and (dotted(up.func) or "") in ORDER_FREE_CALLS:
                return True
            if isinstance(up, ast.stmt):
                return False
        return False

    def _setvars(self, f):
        sv = set()
        for s in ast.walk(f.node):
            if isinstance(s, ast.Assign) and isinstance(s.targets[0], ast.Name) and self.is_set_expr(s.value, sv):
                sv.add(s.targets[0].id)
        return sv

    def _is_set_iter(self, f, it, sv):
        return self.is_set_expr(it, sv) or (isinstance(it, ast.Attribute) and it.attr == "efactors")

    def _seed(self):
        for q, f in sorted(self.prog.functions.items()):
            sv = self._setvars(f)
            for n in ast.walk(f.node):
                if isinstance(n, ast.For) and self._is_set_iter(f, n.iter, sv):
                    for s in n.body:
                        for x in ast.walk(s):
                            if isinstance(x, ast.Assign) and isinstance(x.targets[0], ast.Subscript) and isinstance(x.targets[0].value, ast.Name):
                                nm = x.targets[0].value.id
                                self._set(self.env[q], nm, 0)
                                self.sources.append((f, x, nm, f"dict `{nm}` receives one key per element of the set `{unparse(n.iter)}`"))
                            if isinstance(x, ast.Call) and isinstance(x.func, ast.Attribute) and x.func.attr in ("append", "extend", "insert") \
                                    and isinstance(x.func.value, ast.Name):
                                nm = x.func.value.id
                                self._set(self.env[q], nm, 0)
                                self.sources.append((f, x, nm, f"list `{nm}` receives one element per element of the set `{unparse(n.iter)}`"))
                if isinstance(n, (ast.ListComp, ast.DictComp)) and any(self._is_set_iter(f, g.iter, sv) for g in n.generators) \
                        and not self._under_order_free(f, n):
                    par = self._parents[q].get(id(n))
                    if isinstance(par, ast.Assign) and len(par.targets) == 1 and isinstance(par.targets[0], ast.Name):
                        nm = par.targets[0].id
                        self._set(self.env[q], nm, 0)
                        self.sources.append((f, n, nm, f"`{nm}` is built by a comprehension over a set"))
                    elif isinstance(par, ast.Return):
                        self._set(self.ret, q, 0)
                        self.sources.append((f, n, "<return>", "a comprehension over a set is returned"))

    # ---- propagation -------------------------------------------------------------------------
    def depth(self, f, e):
        env = self.env[f.qual]
        if isinstance(e, ast.Name):
            return env.get(e.id)
        if isinstance(e, ast.Starred):
            return self.depth(f, e.value)
        if isinstance(e, ast.Subscript):
            d = self.depth(f, e.value)
            if d is None:
                return None
            if isinstance(e.slice, ast.Slice):
                return d
            return d - 1 if d > 0 else None
        if isinstance(e, ast.IfExp):
            ds = [x for x in (self.depth(f, e.body), self.depth(f, e.orelse)) if x is not None]
            return min(ds) if ds else None
        if isinstance(e, ast.BoolOp):
            ds = [x for x in (self.depth(f, v) for v in e.values) if x is not None]
            return min(ds) if ds else None
        if isinstance(e, (ast.List, ast.Tuple)):
            ds = [x for x in (self.depth(f, v) for v in e.elts) if x is not None]
            return min(ds) + 1 if ds else None
        if isinstance(e, ast.Dict):
            ds = [x for x in (self.depth(f, v) for v in e.values if v is not None) if x is not None]
            return min(ds) + 1 if ds else None
        if isinstance(e, (ast.ListComp, ast.GeneratorExp)):
            self._bind_generators(f, e.generators)
            d = self.depth(f, e.elt)
            return d + 1 if d is not None else None
        if isinstance(e, ast.DictComp):
            self._bind_generators(f, e.generators)
            d = self.depth(f, e.value)
            return d + 1 if d is not None else None
        if isinstance(e, ast.Attribute):
            return self.fields.get(e.attr)
        if isinstance(e, ast.Call):
            dn = dotted(e.func) or ""
            if dn in KEEP_ORDER_CALLS and e.args:
                return self.depth(f, e.args[0])
            if isinstance(e.func, ast.Attribute):
                base = self.depth(f, e.func.value)
                if base is not None:
                    if e.func.attr in ("get", "pop", "setdefault"):
                        return base - 1 if base > 0 else None
                    if e.func.attr in ("copy",):
                        return base
                    if e.func.attr in ("values", "items", "keys"):
                        return base  # an iterable over the same container (elements one level below)
            site = self.te.sites.get(f.qual, {}).get(id(e))
            if site is not None and site.targets:
                ds = [self.ret.get(t) for t in site.targets if self.ret.get(t) is not None]
                return min(ds) if ds else None
        return None

    def _bind_target(self, f, tgt, d, via_items=False):
        """bind a loop / comprehension target to elements of an iterable of depth d"""
        if d is None or d <= 0:
            return
        if isinstance(tgt, ast.Name):
            self._set(self.env[f.qual], tgt.id, d - 1)
        elif isinstance(tgt, (ast.Tuple, ast.List)) and via_items and len(tgt.elts) == 2:
            self._bind_target(f, tgt.elts[1], d)

    def _iter_info(self, f, it):
        """(depth of the iterated container, via .items()?)"""
        if isinstance(it, ast.Call) and isinstance(it.func, ast.Attribute) and it.func.attr in ("values", "items") and not it.args:
            return self.depth(f, it.func.value), it.func.attr == "items"
        return self.depth(f, it), False

    def _bind_loop(self, f, target, it):
        if isinstance(it, ast.Call) and isinstance(it.func, ast.Attribute) and it.func.attr == "keys":
            return
        if isinstance(it, ast.Call) and dotted(it.func) == "enumerate" and it.args and isinstance(target, (ast.Tuple, ast.List)) and len(target.elts) == 2:
            return self._bind_loop(f, target.elts[1], it.args[0])
        if isinstance(it, ast.Call) and dotted(it.func) == "zip" and isinstance(target, (ast.Tuple, ast.List)) and len(target.elts) == len(it.args):
            for t, a in zip(target.elts, it.args):
                self._bind_loop(f, t, a)
            return
        d, items = self._iter_info(f, it)
        self._bind_target(f, target, d, items)

    def _bind_generators(self, f, gens):
        for g in gens:
            self._bind_loop(f, g.target, g.iter)

    def _function(self, f):
        q = f.qual
        env = self.env[q]
        for n in ast.walk(f.node):
            if isinstance(n, ast.Assign):
                d = self.depth(f, n.value)
                for t in n.targets:
                    if isinstance(t, ast.Name):
                        self._set(env, t.id, d)
                    elif isinstance(t, ast.Subscript) and isinstance(t.value, ast.Name) and d is not None:
                        self._set(env, t.value.id, d + 1)
                    elif isinstance(t, ast.Subscript) and isinstance(t.value, ast.Attribute) and d is not None:
                        self._set(self.fields, t.value.attr, d + 1)
                    elif isinstance(t, ast.Attribute) and d is not None:
                        self._set(self.fields, t.attr, d)
            elif isinstance(n, ast.For):
                self._bind_loop(f, n.target, n.iter)
            elif isinstance(n, (ast.ListComp, ast.GeneratorExp, ast.SetComp, ast.DictComp)):
                self._bind_generators(f, n.generators)
            elif isinstance(n, ast.Return) and n.value is not None:
                self._set(self.ret, q, self.depth(f, n.value))
            elif isinstance(n, ast.Call):
                if isinstance(n.func, ast.Attribute) and isinstance(n.func.value, ast.Name) and n.args:
                    base = n.func.value.id
                    if n.func.attr in ("append", "add", "insert"):
                        d = self.depth(f, n.args[-1])
                        if d is not None:
                            self._set(env, base, d + 1)
                    elif n.func.attr in ("extend", "update"):
                        self._set(env, base, self.depth(f, n.args[0]))
                site = self.te.sites.get(q, {}).get(id(n))
                if site is not None:
                    for t in site.targets:
                        callee = self.prog.functions.get(t)
                        if callee is None:
                            continue
                        params = list(callee.params)
                        offset = 1 if callee.cls is not None and params and params[0] in ("self", "cls") and not (
                            isinstance(n.func, ast.Name) and n.func.id == callee.cls.name) else 0
                        if callee.cls is not None and callee.name == "__init__":
                            offset = 1
                        for i, a in enumerate(n.args):
                            if isinstance(a, ast.Starred):
                                continue
                            d = self.depth(f, a)
                            if d is not None and i + offset < len(params):
                                self._set(self.env[t], params[i + offset], d)
                        for k in n.keywords:
                            d = self.depth(f, k.value)
                            if d is not None and k.arg in params:
                                self._set(self.env[t], k.arg, d)

    # ---- uses --------------------------------------------------------------------------------
    def order_sensitive_uses(self):
        """every place where the element order of a depth-0 container can be observed"""
        out = []
        examined = 0
        for q, f in sorted(self.prog.functions.items()):
            zero = {nm for nm, d in self.env[q].items() if d == 0}
            par = self._parents[q]

            def is_zero(e):
                if isinstance(e, ast.Call) and isinstance(e.func, ast.Attribute) and e.func.attr in ("keys", "values", "items") and not e.args:
                    return is_zero(e.func.value)
                return self.depth(f, e) == 0

            for n in ast.walk(f.node):
                sites = []
                if isinstance(n, ast.For):
                    sites.append((n, n.iter, "for loop"))
                if isinstance(n, ast.comprehension):
                    sites.append((n, n.iter, "comprehension"))
                if isinstance(n, ast.Call):
                    dn = dotted(n.func) or ""
                    if dn in ITERATING_CALLS or (isinstance(n.func, ast.Attribute) and n.func.attr == "join"):
                        for a in n.args:
                            sites.append((n, a.value if isinstance(a, ast.Starred) else a, f"`{dn or n.func.attr}(...)`"))
                    elif dn not in ORDER_FREE_CALLS and dn not in KEEP_ORDER_CALLS:
                        site = self.te.sites.get(q, {}).get(id(n))
                        if site is None or not site.targets:
                            for a in n.args:
                                if not (isinstance(n.func, ast.Attribute) and n.func.attr in ("get", "append", "update", "extend", "add", "insert",
                                                                                              "index", "remove", "pop", "setdefault")):
                                    sites.append((n, a, f"argument of the library call `{dn or unparse(n.func)}`"))
                        for a in n.args:
                            if isinstance(a, ast.Starred):
                                sites.append((n, a.value, "`*` unpacking"))
                if isinstance(n, ast.Assign) and isinstance(n.targets[0], (ast.Tuple, ast.List)):
                    sites.append((n, n.value, "tuple unpacking"))
                for node, it, how in sites:
                    try:
                        z = is_zero(it)
                    except AnalysisError:
                        z = False
                    if not z:
                        continue
                    examined += 1
                    holder = node if not isinstance(node, ast.comprehension) else next(
                        (p_ for p_ in ast.walk(f.node) if isinstance(p_, (ast.ListComp, ast.GeneratorExp, ast.SetComp, ast.DictComp)) and node in p_.generators), node)
                    if self._under_order_free(f, holder) or isinstance(holder, ast.SetComp):
                        continue
                    out.append((f, holder if hasattr(holder, "lineno") else f.node, unparse(it), how))
            # membership / lookup uses are counted as examined, order-free uses
            for n in ast.walk(f.node):
                if isinstance(n, ast.Name) and n.id in zero and isinstance(n.ctx, ast.Load):
                    examined += 1
        return out, examined

"""Thorough tier for C01/C12: bounded exhaustive comparison of the grammar model extracted from
formulae/parser.py with an independent Pratt parser written from the documented precedence table.

Both are *models*: the extracted IR is run by the generic interpreter sa.grammar.Interp, the
reference is the 60-line parser below.  The repository's code is never imported or executed.

For every token string up to the length bound: if the extracted model accepts, the reference must
accept and produce the same tree (same bracketing over token positions).  Strings the model rejects
are allowed by the property (they are only counted).
"""
import itertools
import multiprocessing as mp
import os
import random

from ..core import AnalysisError
from .. import grammar as G

ATOMS = ["IDENTIFIER", "NUMBER", "STRING", "BQNAME", "PYTHON_LITERAL"]
PUNCT = ["LEFT_PAREN", "RIGHT_PAREN", "LEFT_BRACKET", "RIGHT_BRACKET", "LEFT_BRACE", "RIGHT_BRACE", "COMMA"]
OPS = ["PLUS", "MINUS", "STAR", "SLASH", "STAR_STAR", "COLON", "PIPE", "TILDE", "EQUAL", "EQUAL_EQUAL", "LESS"]
JUNK = ["PERIOD"]
ALPHABET = ATOMS + PUNCT + OPS + JUNK
LIT = {"NUMBER": 1, "STRING": "s", "PYTHON_LITERAL": None}

# documented table: binding powers (higher binds tighter); all binary operators left-associative
BP = {"EQUAL": 1, "TILDE": 2, "PIPE": 3, "EQUAL_EQUAL": 4, "BANG_EQUAL": 4, "LESS_EQUAL": 4, "LESS": 4, "GREATER_EQUAL": 4, "GREATER": 4,
      "PLUS": 5, "MINUS": 5, "STAR": 6, "SLASH": 6, "COLON": 7, "STAR_STAR": 8}
UNARY_BP = 9


class Reject(Exception):
    pass


class Ref:
    """Pratt parser for the documented grammar; trees are canonical tuples over token positions."""

    def __init__(self, kinds):
        self.k = kinds + ["EOF"]
        self.i = 0

    def peek(self):
        return self.k[self.i]

    def take(self, kind=None):
        if kind is not None and self.k[self.i] != kind:
            raise Reject()
        self.i += 1
        return self.i - 1

    def parse(self):
        e = self.expr(0)
        if self.peek() != "EOF":
            raise Reject()
        return e

    def expr(self, min_bp):
        left = self.prefix()
        while True:
            op = self.peek()
            bp = BP.get(op)
            if bp is None or bp < min_bp:
                return left
            pos = self.take()
            right = self.expr(bp + 1)
            if op == "EQUAL":
                if left[0] != "Variable":
                    raise Reject()
                left = ("Assign", left, right)
            else:
                left = ("Binary", left, pos, right)

    def prefix(self):
        if self.peek() in ("PLUS", "MINUS"):
            pos = self.take()
            return ("Unary", pos, self.expr_unary())
        return self.postfix()

    def expr_unary(self):
        if self.peek() in ("PLUS", "MINUS"):
            pos = self.take()
            return ("Unary", pos, self.expr_unary())
        return self.postfix()

    def postfix(self):
        e = self.primary()
        while self.peek() == "LEFT_PAREN":
            self.take()
            args = []
            if self.peek() != "RIGHT_PAREN":
                while True:
                    args.append(self.expr(0))
                    if self.peek() == "COMMA":
                        self.take()
                        continue
                    break
            self.take("RIGHT_PAREN")
            e = ("Call", e, tuple(args))
        return e

    def primary(self):
        k = self.peek()
        if k == "IDENTIFIER":
            pos = self.take()
            if self.peek() == "LEFT_BRACKET":
                self.take()
                lv = self.primary()
                if lv[0] == "Literal":
                    if self.k[lv[1]] != "STRING":
                        raise Reject()
                    level = ("level", lv[1])
                elif lv[0] == "Variable":
                    if lv[2] is not None:
                        raise Reject()
                    level = ("level", lv[1])
                else:
                    level = ("raw", lv)
                self.take("RIGHT_BRACKET")
                return ("Variable", pos, level)
            return ("Variable", pos, None)
        if k in ("NUMBER", "STRING", "PYTHON_LITERAL"):
            return ("Literal", self.take())
        if k == "BQNAME":
            return ("QuotedName", self.take())
        if k == "LEFT_PAREN":
            self.take()
            e = self.expr(0)
            self.take("RIGHT_PAREN")
            return ("Grouping", e)
        if k == "LEFT_BRACE":
            self.take()
            e = self.expr(0)
            self.take("RIGHT_BRACE")
            return ("Call", ("Variable", "I", None), (e,))
        raise Reject()


def canon(t):
    """canonical form of a tree built by the model interpreter"""
    if t is None:
        return None
    tag = t[0]
    if tag == "Binary":
        return ("Binary", canon(t[1]), int(t[2][1]), canon(t[3]))
    if tag == "Unary":
        return ("Unary", int(t[1][1]), canon(t[2]))
    if tag == "Assign":
        return ("Assign", canon(t[1]), canon(t[2]))
    if tag == "Call":
        return ("Call", canon(t[1]), tuple(canon(a) for a in t[2]))
    if tag == "Grouping":
        return ("Grouping", canon(t[1]))
    if tag == "QuotedName":
        return ("QuotedName", int(t[1][1]))
    if tag == "Variable":
        name = t[1]
        pos = "I" if name[1] == "I" and name[2] is None and not name[1].isdigit() else int(name[1])
        lv = t[2]
        if lv is None:
            level = None
        elif isinstance(lv, tuple) and lv and lv[0] == "Literal":
            v = lv[1]
            # Literal(value=<lexeme of the level token>) or the STRING literal itself
            if isinstance(v, str) and v.startswith("@"):
                level = ("level", int(v[1:]))
            elif isinstance(v, str) and v.isdigit():
                level = ("level", int(v))  # Literal(<lexeme of the bracketed identifier>)
            elif lv[2] is not None:
                level = ("level", int(lv[2]))
            else:
                level = ("level?", v)
        else:
            level = ("raw", canon(lv))
        return ("Variable", pos, level)
    if tag == "Literal":
        # value is the token's literal (tagged with its position), lexeme is the position
        v = t[1]
        if isinstance(v, str) and v.startswith("@"):
            return ("Literal", int(v[1:]))
        if t[2] is not None:
            return ("Literal", int(t[2]))
        return ("Literal?", v)
    raise ValueError(tag)


def tokens_of(kinds):
    toks = []
    for i, k in enumerate(kinds):
        # literal of literal tokens encodes the position; STRING literals are python strings
        lit = None
        if k == "NUMBER":
            lit = PosInt(i)
        elif k == "STRING":
            lit = "@" + str(i)
        elif k == "PYTHON_LITERAL":
            lit = PosNone(i)
        toks.append((k, str(i), lit))
    toks.append(("EOF", "", None))
    return toks


class PosInt(int):
    """an int literal that remembers its token position"""
    def __new__(cls, pos):
        o = int.__new__(cls, 1)
        o.pos = pos
        return o


class PosNone:
    def __init__(self, pos):
        self.pos = pos


def _fix_literal(t):
    """replace position-carrying literal values by '@pos' strings for canon()"""
    if isinstance(t, tuple) and t and isinstance(t[0], str):
        if t[0] == "Literal":
            v = t[1]
            if isinstance(v, PosInt) or isinstance(v, PosNone):
                return ("Literal", "@" + str(v.pos), t[2])
            return t
        return tuple(_fix_literal(x) if isinstance(x, (tuple, list)) else x for x in t)
    if isinstance(t, list):
        return [_fix_literal(x) for x in t]
    if isinstance(t, tuple):
        return tuple(_fix_literal(x) if isinstance(x, (tuple, list)) else x for x in t)
    return t


def ref_canon_level(t):
    return t


def compare_one(interp, kinds):
    """returns (model_accepts, ref_accepts, mismatch description or None)"""
    toks = tokens_of(list(kinds))
    try:
        mt = interp.parse(toks)
        m_ok = True
    except G.ParseFail:
        m_ok, mt = False, None
    except G.ModelCrash as e:
        if "fuel" in str(e):
            return ("crash", None, f"model does not terminate on {kinds}")
        m_ok, mt = False, None
    except (IndexError, KeyError, TypeError, AttributeError):
        m_ok, mt = False, None
    try:
        rt = Ref(list(kinds)).parse()
        r_ok = True
    except Reject:
        r_ok, rt = False, None
    if not m_ok:
        return (False, r_ok, None)
    if not r_ok:
        return (True, False, f"model accepts {list(kinds)} but the documented grammar rejects it; model tree {mt}")
    mc = canon(_fix_literal(mt))
    if mc != rt:
        return (True, True, f"trees differ for {list(kinds)}: model {mc} vs documented {rt}")
    return (True, True, None)


_W = {}


def _init(root):
    from ..core import Program

    os.environ["FORMULAE_SRC"] = root
    prog = Program(root)
    _W["interp"] = G.Interp(G.extract(prog))


def _chunk(args):
    prefix, n, alphabet = args
    interp = _W["interp"]
    acc = rej = refonly = 0
    bad = []
    for rest in itertools.product(alphabet, repeat=n - len(prefix)):
        kinds = prefix + rest
        m, r, msg = compare_one(interp, kinds)
        if m == "crash":
            bad.append(msg)
            continue
        if m:
            acc += 1
        else:
            rej += 1
            if r:
                refonly += 1
        if msg and len(bad) < 5:
            bad.append(msg)
    return acc, rej, refonly, bad


def _random_chunk(args):
    seed, count, alphabet, lo, hi = args
    interp = _W["interp"]
    rnd = random.Random(seed)
    acc = rej = refonly = 0
    bad = []
    for _ in range(count):
        n = rnd.randint(lo, hi)
        kinds = tuple(_gen_sentence(rnd, n) if rnd.random() < 0.7 else [rnd.choice(alphabet) for _ in range(n)])
        m, r, msg = compare_one(interp, kinds)
        if m == "crash":
            bad.append(msg)
            continue
        if m:
            acc += 1
        else:
            rej += 1
            if r:
                refonly += 1
        if msg and len(bad) < 5:
            bad.append(msg)
    return acc, rej, refonly, bad


def _gen_sentence(rnd, budget):
    """grammar-directed random sentence of the documented language (with redundant parentheses)"""
    out = []

    def expr(depth):
        r = rnd.random()
        if depth > 4 or r < 0.35:
            atom()
        elif r < 0.75:
            expr(depth + 1)
            out.append(rnd.choice(OPS[:9] + ["EQUAL_EQUAL", "LESS"]))
            expr(depth + 1)
        elif r < 0.83:
            out.append(rnd.choice(["PLUS", "MINUS"]))
            expr(depth + 1)
        elif r < 0.92:
            out.append("LEFT_PAREN")
            expr(depth + 1)
            out.append("RIGHT_PAREN")
        else:
            out.append("IDENTIFIER")
            out.append("LEFT_PAREN")
            for i in range(rnd.randint(0, 2)):
                if i:
                    out.append("COMMA")
                expr(depth + 2)
            out.append("RIGHT_PAREN")

    def atom():
        out.append(rnd.choice(ATOMS))

    expr(0)
    return out[: max(budget, 1) * 3]


def run(ctx, rep):
    prog = ctx.prog
    maxlen = int(os.environ.get("VERIF_GRAMMAR_MAXLEN", "5"))
    jobs = min(16, os.cpu_count() or 1)
    tasks = []
    for n in range(1, maxlen + 1):
        if n <= 2:
            tasks.append(((), n, ALPHABET))
        else:
            for p in itertools.product(ALPHABET, repeat=2):
                tasks.append((p, n, ALPHABET))
    seed = int(os.environ.get("VERIF_SEED", "0") or 0)
    rtasks = [(seed * 1000 + i, 6000, ALPHABET, 6, 14) for i in range(jobs * 2)]
    with mp.Pool(jobs, initializer=_init, initargs=(prog.root,)) as pool:
        res = pool.map(_chunk, tasks, chunksize=4)
        rres = pool.map(_random_chunk, rtasks)
    acc = sum(r[0] for r in res)
    rej = sum(r[1] for r in res)
    refonly = sum(r[2] for r in res)
    bad = [b for r in res + rres for b in r[3]]
    racc = sum(r[0] for r in rres)
    rrej = sum(r[1] for r in rres)
    fn = ctx.ex.productions["parse"]["fn"]
    total = acc + rej
    rep.extra["bounded_grammar_comparison"] = {
        "alphabet": ALPHABET, "max_length": maxlen, "strings": total, "accepted_by_model": acc, "rejected_by_model": rej,
        "accepted_only_by_documented_grammar": refonly, "random_longer_strings": racc + rrej, "random_accepted": racc,
        "mismatches": len(bad),
    }
    rep.check(not bad, "R1.1b", fn.where, fn.qual,
              f"bounded model comparison: all {total} token strings of length <= {maxlen} over {len(ALPHABET)} kinds and {racc + rrej} random longer "
              f"strings: every string the extracted grammar accepts gets the tree of the documented precedence/associativity",
              f"{acc} accepted, {rej} rejected ({refonly} of them are in the documented language: rejection is allowed)",
              "; ".join(bad[:3]))

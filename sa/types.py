"""Closed-world type inference and typed call graph for the formulae package.

Whole-program, flow-insensitive, context-insensitive (0-CFA style) inference to a
fixpoint over all functions of the package.  Abstract values are sets of atoms:

  ('inst', C)   instance of package class C          ('cls', C)   the class object
  ('func', F)   package function F                   ('bound', F, C) bound method
  ('list', fs)  list/tuple/iterable with element atoms fs
  ('dict', fs)  dict with value atoms fs
  ('tuple', (fs0, fs1, ..)) fixed-arity tuple
  ('ext', name) value from outside the package (numpy array, DataFrame, module ...)
  ('registry',) callable resolved dynamically from TRANSFORMS/ENCODINGS/user namespace
  ('prim',) ('none',)

The dynamic callee of LazyCall.eval is resolved to the statically extracted registry.
"""
import ast
import time

from .core import AnalysisError, dotted, unparse, walk_local, is_str_const

EXT = ("ext", "?")
PRIM = ("prim",)
NONE = ("none",)
REG = ("registry",)

MAXDEPTH = 3


def _depth(atom):
    if atom[0] in ("list", "dict"):
        return 1 + max([_depth(a) for a in atom[1]] or [0])
    if atom[0] == "tuple":
        return 1 + max([_depth(a) for fs in atom[1] for a in fs] or [0])
    return 0


def normalise(atoms):
    """merge all list atoms, all dict atoms and all same-arity tuple atoms of a set"""
    atoms = set(atoms)
    for tag in ("list", "dict"):
        group = [a for a in atoms if a[0] == tag]
        if len(group) > 1:
            merged = (tag, frozenset(normalise(frozenset().union(*[a[1] for a in group]))))
            atoms -= set(group)
            atoms.add(merged)
    tups = [a for a in atoms if a[0] == "tuple"]
    by_arity = {}
    for a in tups:
        by_arity.setdefault(len(a[1]), []).append(a)
    for n, group in by_arity.items():
        if len(group) > 1:
            merged = ("tuple", tuple(frozenset(normalise(frozenset().union(*[g[1][i] for g in group]))) for i in range(n)))
            atoms -= set(group)
            atoms.add(merged)
    return atoms


def _clip(elems):
    return frozenset(normalise(a if _depth(a) < MAXDEPTH else EXT for a in elems))


def mk_list(elems):
    return ("list", _clip(elems))


def mk_dict(vals):
    return ("dict", _clip(vals))


def mk_tuple(parts):
    return ("tuple", tuple(_clip(p) for p in parts))


def elems_of(t):
    """element atoms when iterating over a value of type t"""
    out = set()
    for a in t:
        if a[0] == "list":
            out |= a[1]
        elif a[0] == "dict":
            out.add(PRIM)  # iterating a dict yields keys
        elif a[0] == "tuple":
            for p in a[1]:
                out |= p
        elif a[0] in ("ext", "registry"):
            out.add(EXT)
        elif a[0] == "inst":
            out.add(EXT)
    return out


DUNDER = {
    ast.Add: "__add__", ast.Sub: "__sub__", ast.Mult: "__mul__", ast.MatMult: "__matmul__",
    ast.Div: "__truediv__", ast.Pow: "__pow__", ast.BitOr: "__or__", ast.Mod: "__mod__",
    ast.FloorDiv: "__floordiv__", ast.BitAnd: "__and__",
}

IDENTITY_FUNCS = {"deepcopy", "copy.deepcopy", "copy", "copy.copy", "list", "tuple", "sorted", "reversed", "set", "frozenset", "iter"}


class CallSite:
    __slots__ = ("node", "targets", "external", "fn", "kind")

    def __init__(self, fn, node, kind):
        self.fn = fn
        self.node = node
        self.kind = kind  # 'call' | 'property' | 'setter' | 'operator' | 'dynamic' | 'funcref'
        self.targets = set()
        self.external = None


class TypeEngine:
    def __init__(self, prog, registry=None):
        self.prog = prog
        self.param_types = {q: {} for q in prog.functions}
        self.vararg_types = {q: set() for q in prog.functions}
        self.kwarg_types = {q: set() for q in prog.functions}
        self.ret_types = {q: set() for q in prog.functions}
        self.field_types = {}
        self.local_types = {q: {} for q in prog.functions}
        self.global_types = {}
        self.sites = {q: {} for q in prog.functions}  # id(node) -> CallSite
        self.registry = registry if registry is not None else extract_registry(prog)
        self.changed = True
        self._quiet = set()
        self._t0 = time.time()
        self._seed()
        self._solve()

    # ------------------------------------------------------------------------------
    def _seed(self):
        g = self.prog.functions.get("formulae.terms.call_resolver.get_function_from_module")
        if g is None:
            raise AnalysisError("anchor get_function_from_module not found")
        self.ret_types[g.qual].add(REG)
        # module globals
        for m in self.prog.modules.values():
            for name, values in m.globals.items():
                self.global_types[f"{m.name}.{name}"] = set()

    def _solve(self):
        rounds = 0
        while self.changed:
            self.changed = False
            rounds += 1
            if rounds > 40 or time.time() - self._t0 > 60:
                raise AnalysisError("type inference did not converge")
            for m in self.prog.modules.values():
                self._module_globals(m)
            for q, f in self.prog.functions.items():
                self._analyse(f)
        self.rounds = rounds

    def _scratch_env(self, key):
        """the environment in which a module-level / class-level expression is typed (its comprehension variables live there):
        one per expression for the whole fixpoint, so that a second evaluation changes nothing"""
        envs = self.__dict__.setdefault("_scratch", {}) if hasattr(self, "__dict__") else None
        if envs is None:
            return {}
        return envs.setdefault(key, {})

    def _join(self, store, key, atoms):
        cur = store.setdefault(key, set())
        if not set(atoms) <= cur:
            merged = normalise(cur | set(atoms))
            if merged != cur:
                cur.clear()
                cur |= merged
                if (id(store), key) not in self._quiet:
                    self.changed = True
                    self.last_changed = key

    # ------------------------------------------------------------------------------
    def _module_globals(self, m):
        fake = _ModuleScope(m)
        for name, values in m.globals.items():
            for v in values:
                if v is None:
                    continue
                t = self._expr(v, fake, self._scratch_env(('globals', m.name, name)))
                self._join(self.global_types, f"{m.name}.{name}", t)

    def _analyse(self, f):
        env = self.local_types[f.qual]
        node = f.node
        a = node.args
        params = [x.arg for x in a.posonlyargs + a.args]
        # self / cls
        if f.cls is not None and params and not f.is_staticmethod:
            owner = f
            self._join(env, params[0], {("cls", f.cls.qual)} if f.is_classmethod else {("inst", f.cls.qual)})
        for p in params + [x.arg for x in a.kwonlyargs]:
            env.setdefault(p, set())
            if p in self.param_types[f.qual]:
                self._join(env, p, self.param_types[f.qual][p])
        # defaults
        for p, d in zip(params[len(params) - len(a.defaults):], a.defaults):
            self._join(env, p, self._expr(d, f, env))
        for p, d in zip(a.kwonlyargs, a.kw_defaults):
            if d is not None:
                self._join(env, p.arg, self._expr(d, f, env))
        if a.vararg:
            self._join(env, a.vararg.arg, {mk_list(self.vararg_types[f.qual])})
        if a.kwarg:
            self._join(env, a.kwarg.arg, {mk_dict(self.kwarg_types[f.qual])})
        for s in node.body:
            self._stmt(s, f, env)

    # ---- statements ----------------------------------------------------------------
    def _stmt(self, s, f, env):
        if isinstance(s, (ast.FunctionDef, ast.AsyncFunctionDef)):
            q = f"{f.qual}.{s.name}"
            if q in self.prog.functions:
                self._join(env, s.name, {("func", q)})
            return
        if isinstance(s, ast.ClassDef):
            return
        if isinstance(s, ast.Assign):
            t = self._expr(s.value, f, env)
            for tgt in s.targets:
                self._assign(tgt, t, f, env, s.value)
            return
        if isinstance(s, ast.AnnAssign):
            if s.value is not None:
                self._assign(s.target, self._expr(s.value, f, env), f, env, s.value)
            return
        if isinstance(s, ast.AugAssign):
            t = self._binop(s.target, s.op, s.value, f, env, s)
            self._assign(s.target, t | self._expr(s.target, f, env), f, env, s.value)
            return
        if isinstance(s, ast.Return):
            if s.value is not None:
                self._join(self.ret_types, f.qual, self._expr(s.value, f, env))
            else:
                self._join(self.ret_types, f.qual, {NONE})
            return
        if isinstance(s, ast.Expr):
            if isinstance(s.value, (ast.Yield, ast.YieldFrom)):
                if s.value.value is not None:
                    t = self._expr(s.value.value, f, env)
                    self._join(self.ret_types, f.qual, {mk_list(t)} if isinstance(s.value, ast.Yield) else t)
                return
            self._expr(s.value, f, env)
            return
        if isinstance(s, ast.For):
            it = self._expr(s.iter, f, env)
            self._assign(s.target, elems_of(it), f, env, None)
            for b in s.body + s.orelse:
                self._stmt(b, f, env)
            return
        if isinstance(s, ast.While):
            self._expr(s.test, f, env)
            for b in s.body + s.orelse:
                self._stmt(b, f, env)
            return
        if isinstance(s, ast.If):
            self._expr(s.test, f, env)
            pos_n, neg_n = self._narrowings(s.test, f, env)
            self._with_narrowing(pos_n, s.body, f, env)
            self._with_narrowing(neg_n, s.orelse, f, env)
            return
        if isinstance(s, ast.With):
            for i in s.items:
                t = self._expr(i.context_expr, f, env)
                if i.optional_vars is not None:
                    self._assign(i.optional_vars, t, f, env, None)
            for b in s.body:
                self._stmt(b, f, env)
            return
        if isinstance(s, ast.Try):
            for b in s.body + s.orelse + s.finalbody:
                self._stmt(b, f, env)
            for h in s.handlers:
                if h.name:
                    self._join(env, h.name, {EXT})
                for b in h.body:
                    self._stmt(b, f, env)
            return
        if isinstance(s, ast.Raise):
            if s.exc is not None:
                self._expr(s.exc, f, env)
            return
        if isinstance(s, ast.Assert):
            self._expr(s.test, f, env)
            return
        if isinstance(s, ast.Delete):
            return
        if isinstance(s, (ast.Pass, ast.Break, ast.Continue, ast.Import, ast.ImportFrom, ast.Global, ast.Nonlocal)):
            return
        raise AnalysisError(f"type inference: unmodelled statement {type(s).__name__} in {f.qual}")

    # ---- isinstance narrowing ---------------------------------------------------------
    def _narrowings(self, test, f, env):
        """(positive, negative): lists of (name, classes) facts known on the true / false branch."""
        if isinstance(test, ast.UnaryOp) and isinstance(test.op, ast.Not):
            p, n = self._narrowings(test.operand, f, env)
            return n, p
        if isinstance(test, ast.BoolOp) and isinstance(test.op, ast.And):
            pos = []
            for v in test.values:
                pos += self._narrowings(v, f, env)[0]
            return pos, []
        if isinstance(test, ast.BoolOp) and isinstance(test.op, ast.Or):
            neg = []
            for v in test.values:
                neg += self._narrowings(v, f, env)[1]
            return [], neg
        if (
            isinstance(test, ast.Call)
            and isinstance(test.func, ast.Name)
            and test.func.id == "isinstance"
            and len(test.args) == 2
            and isinstance(test.args[0], ast.Name)
        ):
            classes = set()
            spec = test.args[1]
            elts = spec.elts if isinstance(spec, ast.Tuple) else [spec]
            exact = True
            for e in elts:
                t = self._expr(e, f, env)
                cl = {a[1] for a in t if a[0] == "cls"}
                if not cl:
                    # a tuple constant such as ACCEPTED_TERMS
                    for a in t:
                        if a[0] in ("tuple", "list"):
                            parts = a[1] if a[0] == "tuple" else [a[1]]
                            for pz in parts:
                                cl |= {x[1] for x in pz if x[0] == "cls"}
                if not cl:
                    exact = False
                classes |= cl
            name = test.args[0].id
            if exact and classes:
                return [(name, "is", classes)], [(name, "isnot", classes)]
            return [(name, "is-ext", classes)], []
        return [], []

    def _with_narrowing(self, facts, body, f, env):
        if not body:
            return
        saved = {}
        for name, how, classes in facts:
            if name not in env:
                continue
            cur = env[name]
            if name not in saved:
                saved[name] = set(cur)
            if how == "is":
                keep = {a for a in cur if a[0] == "inst" and a[1] in classes}
                # an unknown/external value proven to be an instance of C is a C
                if any(a[0] in ("ext", "registry") for a in cur) or not cur:
                    keep |= {("inst", c) for c in classes}
                env[name] = keep
            elif how == "isnot":
                env[name] = {a for a in cur if not (a[0] == "inst" and a[1] in classes)}
            elif how == "is-ext":
                env[name] = {a for a in cur if a[0] != "inst"} | {EXT}
        narrowed = {n: set(env[n]) for n in saved}
        quiet = {(id(env), n) for n in saved} - self._quiet
        self._quiet |= quiet
        for b in body:
            self._stmt(b, f, env)
        self._quiet -= quiet
        for n, old in saved.items():
            added = env[n] - narrowed[n]
            env[n] = old
            if added:
                self._join(env, n, added)

    def _assign(self, tgt, t, f, env, valnode):
        if isinstance(tgt, ast.Name):
            self._join(env, tgt.id, t)
        elif isinstance(tgt, (ast.Tuple, ast.List)):
            for i, e in enumerate(tgt.elts):
                part = set()
                for a in t:
                    if a[0] == "tuple" and i < len(a[1]):
                        part |= a[1][i]
                    elif a[0] == "list":
                        part |= a[1]
                    else:
                        part.add(EXT)
                if isinstance(e, ast.Starred):
                    self._assign(e.value, {mk_list(part)}, f, env, None)
                else:
                    self._assign(e, part, f, env, None)
        elif isinstance(tgt, ast.Attribute):
            recv = self._expr(tgt.value, f, env)
            for a in recv:
                if a[0] == "inst":
                    cls = self.prog.classes.get(a[1])
                    if cls is not None and tgt.attr in cls.setters:
                        st = cls.setters[tgt.attr]
                        site = self._site(f, tgt, "setter")
                        site.targets.add(st.qual)
                        ps = st.params
                        if len(ps) >= 2:
                            self._join(self.param_types[st.qual], ps[1], t)
                    else:
                        self._join(self.field_types, (a[1], tgt.attr), t)
        elif isinstance(tgt, ast.Subscript):
            recv = self._expr(tgt.value, f, env)
            self._expr(tgt.slice, f, env)
            # container element update
            base = tgt.value
            if isinstance(base, ast.Name):
                for a in list(recv):
                    if a[0] == "dict":
                        self._join(env, base.id, {mk_dict(a[1] | frozenset(t))})
                    elif a[0] == "list":
                        self._join(env, base.id, {mk_list(a[1] | frozenset(t))})
            elif isinstance(base, ast.Attribute):
                r2 = self._expr(base.value, f, env)
                for a in r2:
                    if a[0] == "inst":
                        cur = self.field_types.get((a[1], base.attr), set())
                        for c in list(cur):
                            if c[0] == "dict":
                                self._join(self.field_types, (a[1], base.attr), {mk_dict(c[1] | frozenset(t))})
                            elif c[0] == "list":
                                self._join(self.field_types, (a[1], base.attr), {mk_list(c[1] | frozenset(t))})
            for a in recv:
                if a[0] == "inst":
                    self._method_call(f, tgt, a[1], "__setitem__", [set(), t], {}, "operator")
        elif isinstance(tgt, ast.Starred):
            self._assign(tgt.value, t, f, env, None)

    # ---- expressions ---------------------------------------------------------------
    def _site(self, f, node, kind):
        s = self.sites.setdefault(f.qual, {}).get(id(node))
        if s is None:
            s = CallSite(f, node, kind)
            self.sites[f.qual][id(node)] = s
        return s

    def _lookup(self, name, f, env):
        if name in env:
            return set(env[name]) or {EXT}
        # enclosing function scopes
        p = getattr(f, "parent", None)
        while p is not None:
            e = self.local_types.get(p.qual, {})
            if name in e:
                return set(e[name]) or {EXT}
            p = p.parent
        m = f.module
        kind, q = self.prog.resolve(m, name)
        if kind == "class":
            return {("cls", q)}
        if kind == "func":
            return {("func", q)}
        if kind == "var":
            return set(self.global_types.get(q, set())) or {EXT}
        if kind == "module":
            return {("ext", "module:" + q)}
        if kind == "ext":
            return {("ext", q)}
        return {EXT}

    def _expr(self, n, f, env):
        if n is None:
            return {NONE}
        if isinstance(n, ast.Constant):
            return {NONE} if n.value is None else {PRIM}
        if isinstance(n, ast.Name):
            return self._lookup(n.id, f, env)
        if isinstance(n, ast.Attribute):
            return self._attr(n, f, env)
        if isinstance(n, ast.Call):
            return self._call(n, f, env)
        if isinstance(n, ast.BinOp):
            return self._binop(n.left, n.op, n.right, f, env, n)
        if isinstance(n, ast.UnaryOp):
            t = self._expr(n.operand, f, env)
            if isinstance(n.op, ast.Not):
                return {PRIM}
            return {EXT if a[0] != "prim" else PRIM for a in t} or {EXT}
        if isinstance(n, ast.BoolOp):
            out = set()
            for v in n.values:
                out |= self._expr(v, f, env)
            return out
        if isinstance(n, ast.Compare):
            l = self._expr(n.left, f, env)
            for op, c in zip(n.ops, n.comparators):
                r = self._expr(c, f, env)
                if isinstance(op, (ast.Eq, ast.NotEq)):
                    for a in l:
                        if a[0] == "inst":
                            self._method_call(f, n, a[1], "__eq__", [r], {}, "operator")
                if isinstance(op, (ast.In, ast.NotIn)):
                    for a in r:
                        if a[0] == "inst":
                            self._method_call(f, n, a[1], "__contains__", [l], {}, "operator")
                        if a[0] in ("list", "dict"):
                            for e in (a[1] if a[0] == "list" else ()):
                                if e[0] == "inst":
                                    self._method_call(f, n, e[1], "__eq__", [l], {}, "operator")
                l = r
            return {PRIM, EXT}
        if isinstance(n, ast.Subscript):
            return self._subscript(n, f, env)
        if isinstance(n, (ast.List, ast.Tuple, ast.Set)):
            if isinstance(n, ast.Tuple) and not any(isinstance(e, ast.Starred) for e in n.elts) and n.elts:
                return {mk_tuple([self._expr(e, f, env) for e in n.elts])}
            el = set()
            for e in n.elts:
                if isinstance(e, ast.Starred):
                    el |= elems_of(self._expr(e.value, f, env))
                else:
                    el |= self._expr(e, f, env)
            return {mk_list(el)}
        if isinstance(n, ast.Dict):
            vals = set()
            for k, v in zip(n.keys, n.values):
                if k is None:
                    for a in self._expr(v, f, env):
                        if a[0] == "dict":
                            vals |= a[1]
                        else:
                            vals.add(EXT)
                else:
                    self._expr(k, f, env)
                    vals |= self._expr(v, f, env)
            return {mk_dict(vals)}
        if isinstance(n, (ast.ListComp, ast.SetComp, ast.GeneratorExp)):
            self._generators(n.generators, f, env)
            return {mk_list(self._expr(n.elt, f, env))}
        if isinstance(n, ast.DictComp):
            self._generators(n.generators, f, env)
            self._expr(n.key, f, env)
            return {mk_dict(self._expr(n.value, f, env))}
        if isinstance(n, ast.IfExp):
            self._expr(n.test, f, env)
            return self._expr(n.body, f, env) | self._expr(n.orelse, f, env)
        if isinstance(n, ast.JoinedStr):
            for v in n.values:
                if isinstance(v, ast.FormattedValue):
                    t = self._expr(v.value, f, env)
                    for a in t:
                        if a[0] == "inst":
                            self._method_call(f, v, a[1], "__str__", [], {}, "operator")
            return {PRIM}
        if isinstance(n, ast.FormattedValue):
            return {PRIM}
        if isinstance(n, ast.Starred):
            return self._expr(n.value, f, env)
        if isinstance(n, ast.Lambda):
            return {EXT}
        if isinstance(n, ast.Slice):
            for p in (n.lower, n.upper, n.step):
                if p is not None:
                    self._expr(p, f, env)
            return {PRIM}
        if isinstance(n, (ast.Yield, ast.YieldFrom)):
            if n.value is not None:
                t = self._expr(n.value, f, env)
                self._join(self.ret_types, f.qual, {mk_list(t)} if isinstance(n, ast.Yield) else t)
            return {NONE}
        if isinstance(n, ast.NamedExpr):
            t = self._expr(n.value, f, env)
            self._assign(n.target, t, f, env, n.value)
            return t
        raise AnalysisError(f"type inference: unmodelled expression {type(n).__name__} in {f.qual}")

    def _generators(self, gens, f, env):
        for g in gens:
            it = self._expr(g.iter, f, env)
            self._assign(g.target, elems_of(it), f, env, None)
            for c in g.ifs:
                self._expr(c, f, env)

    def _attr(self, n, f, env):
        recv = self._expr(n.value, f, env)
        out = set()
        for a in recv:
            if a[0] == "inst":
                cls = self.prog.classes.get(a[1])
                out |= self._inst_attr(f, n, cls, n.attr)
            elif a[0] == "cls":
                cls = self.prog.classes.get(a[1])
                if cls is not None and n.attr in cls.methods:
                    m = cls.methods[n.attr]
                    out.add(("bound", m.qual, cls.qual) if m.is_classmethod else ("func", m.qual))
                elif cls is not None and n.attr in cls.class_attrs:
                    out |= self._expr(cls.class_attrs[n.attr], _ModuleScope(cls.module), self._scratch_env(('classattr', cls.qual, n.attr)))
                elif n.attr == "__name__":
                    out.add(PRIM)
                else:
                    out.add(EXT)
            elif a[0] == "ext" and a[1].startswith("module:"):
                mod = self.prog.modules.get(a[1][7:])
                if mod is not None:
                    kind, q = self.prog.resolve(mod, n.attr)
                    if kind == "class":
                        out.add(("cls", q))
                    elif kind == "func":
                        out.add(("func", q))
                    elif kind == "var":
                        out |= self.global_types.get(q, set()) or {EXT}
                    else:
                        out.add(EXT)
                else:
                    out.add(EXT)
            elif a[0] == "ext":
                if a[1] != "?" and a[1].count(".") < 3:
                    out.add(("ext", a[1] + "." + n.attr))
                else:
                    out.add(EXT)
            elif a[0] in ("list", "dict", "tuple"):
                out.add(("cmeth", a, n.attr))
            elif a[0] == "registry":
                out.add(EXT)
            elif a[0] in ("func", "bound"):
                out.add(EXT if n.attr not in ("__name__",) else PRIM)
            else:
                out.add(EXT)
        return out or {EXT}

    def _inst_attr(self, f, n, cls, attr):
        out = set()
        if cls is None:
            return {EXT}
        cur = cls
        # single inheritance inside the package (Encoding <- Treatment/Sum)
        chain = [cls]
        for b in cls.bases:
            kind, q = self.prog.resolve(cls.module, b.split(".")[0]) if b else ("ext", b)
            if kind == "class" and q in self.prog.classes:
                chain.append(self.prog.classes[q])
        for c in chain:
            if attr in c.methods:
                m = c.methods[attr]
                if m.is_property:
                    site = self._site(f, n, "property")
                    site.targets.add(m.qual)
                    self._join(self.param_types[m.qual], m.params[0], {("inst", cls.qual)}) if m.params else None
                    out |= self.ret_types[m.qual]
                    if not self.ret_types[m.qual]:
                        pass
                else:
                    out.add(("bound", m.qual, cls.qual))
                return out or set()
        ft = self.field_types.get((cls.qual, attr))
        if ft:
            return set(ft)
        if attr in cls.class_attrs:
            return self._expr(cls.class_attrs[attr], _ModuleScope(cls.module), self._scratch_env(('classattr', cls.qual, attr)))
        if attr == "__class__":
            return {("cls", cls.qual)}
        if attr == "__dict__":
            return {EXT}
        return set()

    def _subscript(self, n, f, env):
        recv = self._expr(n.value, f, env)
        self._expr(n.slice, f, env)
        out = set()
        for a in recv:
            if a[0] == "list":
                if isinstance(n.slice, ast.Slice):
                    out.add(a)
                else:
                    out |= a[1]
            elif a[0] == "dict":
                out |= a[1]
            elif a[0] == "tuple":
                if isinstance(n.slice, ast.Constant) and isinstance(n.slice.value, int) and -len(a[1]) <= n.slice.value < len(a[1]):
                    out |= a[1][n.slice.value]
                elif isinstance(n.slice, ast.Slice):
                    out.add(a)
                else:
                    for p in a[1]:
                        out |= p
            elif a[0] == "inst":
                out |= self._method_call(f, n, a[1], "__getitem__", [self._expr(n.slice, f, env)], {}, "operator")
            else:
                out.add(EXT)
        return out or {EXT}

    def _binop(self, left, op, right, f, env, node):
        l = self._expr(left, f, env)
        r = self._expr(right, f, env)
        out = set()
        name = DUNDER.get(type(op))
        for a in l:
            if a[0] == "inst" and name:
                res = self._method_call(f, node, a[1], name, [r], {}, "operator")
                out |= res
                if not res:
                    # reflected operand
                    pass
            elif a[0] == "list" and isinstance(op, ast.Add):
                el = set(a[1])
                for b in r:
                    if b[0] == "list":
                        el |= b[1]
                out.add(mk_list(el))
            elif a[0] == "prim":
                out.add(PRIM)
                if any(b[0] not in ("prim",) for b in r):
                    out.add(EXT)
            else:
                out.add(EXT)
        return out or {EXT}

    def _method_call(self, f, node, clsq, mname, argtypes, kwtypes, kind):
        cls = self.prog.classes.get(clsq)
        if cls is None:
            return {EXT}
        chain = [cls]
        for b in cls.bases:
            k, q = self.prog.resolve(cls.module, b.split(".")[0]) if b else ("ext", b)
            if k == "class" and q in self.prog.classes:
                chain.append(self.prog.classes[q])
        for c in chain:
            m = c.methods.get(mname)
            if m is not None:
                site = self._site(f, node, kind)
                site.targets.add(m.qual)
                self._bind(m, [{("inst", clsq)}] + list(argtypes), kwtypes, [], None)
                return set(self.ret_types[m.qual])
        return set()

    def _bind(self, callee, pos, kw, star_elems, starstar):
        """propagate argument types into the callee's parameters"""
        a = callee.node.args
        params = [x.arg for x in a.posonlyargs + a.args]
        store = self.param_types[callee.qual]
        for i, t in enumerate(pos):
            if i < len(params):
                self._join(store, params[i], t)
            elif a.vararg:
                self._join(self.vararg_types, callee.qual, t)
        if star_elems:
            # star-args can land on any remaining positional parameter or the vararg
            for p in params[len(pos):]:
                self._join(store, p, star_elems)
            if a.vararg:
                self._join(self.vararg_types, callee.qual, star_elems)
        for k, t in kw.items():
            if k in params or k in [x.arg for x in a.kwonlyargs]:
                self._join(store, k, t)
            elif a.kwarg:
                self._join(self.kwarg_types, callee.qual, t)
        if starstar:
            for p in params + [x.arg for x in a.kwonlyargs]:
                self._join(store, p, starstar)
            if a.kwarg:
                self._join(self.kwarg_types, callee.qual, starstar)

    def _args(self, n, f, env):
        pos, star = [], set()
        for x in n.args:
            if isinstance(x, ast.Starred):
                star |= elems_of(self._expr(x.value, f, env))
            else:
                pos.append(self._expr(x, f, env))
        kw, ss = {}, set()
        for k in n.keywords:
            if k.arg is None:
                for a in self._expr(k.value, f, env):
                    ss |= a[1] if a[0] == "dict" else {EXT}
            else:
                kw[k.arg] = self._expr(k.value, f, env)
        return pos, star, kw, ss

    def _call(self, n, f, env):
        fn_t = self._expr(n.func, f, env)
        pos, star, kw, ss = self._args(n, f, env)
        dn = dotted(n.func)
        out = set()
        site = self._site(f, n, "call")
        # function objects passed as arguments are potential callees (reduce, map ...)
        for t in pos + list(kw.values()):
            for a in t:
                if a[0] == "func" and a[1] in self.prog.functions:
                    s2 = self._site(f, n, "call")
                    s2.targets.add(a[1])
        for a in fn_t:
            if a[0] == "cls":
                cls = self.prog.classes.get(a[1])
                out.add(("inst", a[1]))
                init = self._find_method(cls, "__init__")
                if init is not None:
                    site.targets.add(init.qual)
                    self._bind(init, [{("inst", a[1])}] + pos, kw, star, ss)
            elif a[0] == "func":
                callee = self.prog.functions.get(a[1])
                if callee is None:
                    out.add(EXT)
                    continue
                site.targets.add(callee.qual)
                if callee.cls is not None and not callee.is_staticmethod and isinstance(n.func, ast.Attribute):
                    self._bind(callee, pos, kw, star, ss)  # unbound: first positional is self
                else:
                    self._bind(callee, pos, kw, star, ss)
                out |= self.ret_types[callee.qual]
            elif a[0] == "bound":
                callee = self.prog.functions.get(a[1])
                site.targets.add(callee.qual)
                recv = {("cls", a[2])} if callee.is_classmethod else {("inst", a[2])}
                tramp = self._trampoline(callee)
                if tramp is not None and pos:
                    # visitor double dispatch `def accept(self, visitor): return visitor.visitX(self)`
                    # is resolved per call site (context-sensitive), otherwise every visitor's
                    # results would flow to every caller of accept.
                    self._bind(callee, [recv] + pos, kw, star, ss)
                    for v in pos[0]:
                        if v[0] == "inst":
                            out |= self._method_call(f, n, v[1], tramp, [recv], {}, "call")
                        else:
                            out.add(EXT)
                else:
                    self._bind(callee, [recv] + pos, kw, star, ss)
                    out |= self.ret_types[callee.qual]
            elif a[0] == "inst":
                out |= self._method_call(f, n, a[1], "__call__", pos, kw, "call")
            elif a[0] == "registry":
                site.kind = "dynamic"
                for kind_, q in self.registry["callables"]:
                    if kind_ == "class":
                        cls = self.prog.classes[q]
                        out.add(("inst", q))
                        init = self._find_method(cls, "__init__")
                        if init is not None:
                            site.targets.add(init.qual)
                            self._bind(init, [{("inst", q)}], {}, set(), set())
                    else:
                        callee = self.prog.functions[q]
                        site.targets.add(q)
                        self._bind(callee, pos, kw, star | {EXT}, ss | {EXT})
                        out |= self.ret_types[q]
                out.add(EXT)
            elif a[0] == "cmeth":
                out |= self._container_method(a[1], a[2], pos, f, n, env)
            elif a[0] == "ext":
                site.external = a[1] if a[1] != "?" else (dn or "?")
                out |= self._external(a[1], dn, n, pos, star, f, env)
            else:
                out.add(EXT)
        if not fn_t:
            out.add(EXT)
        return out or {EXT}

    def _trampoline(self, callee):
        """name of the visitor method if callee is `def accept(self, v): return v.<m>(self)`"""
        body = [b for b in callee.node.body if not (isinstance(b, ast.Expr) and isinstance(b.value, ast.Constant))]
        ps = callee.params
        if len(body) == 1 and isinstance(body[0], ast.Return) and len(ps) == 2:
            c = body[0].value
            if (
                isinstance(c, ast.Call)
                and isinstance(c.func, ast.Attribute)
                and isinstance(c.func.value, ast.Name)
                and c.func.value.id == ps[1]
                and len(c.args) == 1
                and isinstance(c.args[0], ast.Name)
                and c.args[0].id == ps[0]
                and not c.keywords
            ):
                return c.func.attr
        return None

    def _find_method(self, cls, name):
        if cls is None:
            return None
        if name in cls.methods:
            return cls.methods[name]
        for b in cls.bases:
            k, q = self.prog.resolve(cls.module, b.split(".")[0]) if b else ("ext", b)
            if k == "class" and q in self.prog.classes and name in self.prog.classes[q].methods:
                return self.prog.classes[q].methods[name]
        return None

    def _container_method(self, cont, name, pos, f, n, env):
        if cont[0] == "dict":
            if name == "values":
                return {mk_list(cont[1])}
            if name == "items":
                return {mk_list({mk_tuple([{PRIM}, set(cont[1])])})}
            if name == "keys":
                return {mk_list({PRIM})}
            if name in ("get", "pop", "setdefault"):
                out = set(cont[1])
                if len(pos) > 1:
                    out |= pos[1]
                else:
                    out.add(NONE)
                return out
            if name == "copy":
                return {cont}
            if name == "update":
                if isinstance(n.func, ast.Attribute):
                    self._container_store(n.func.value, f, env, pos[0] if pos else set(), dict_update=True)
                return {NONE}
            return {EXT}
        if cont[0] == "list":
            if name in ("append", "add", "insert", "remove", "extend"):
                val = pos[-1] if pos else set()
                if name == "extend":
                    val = elems_of(val)
                if name != "remove" and isinstance(n.func, ast.Attribute):
                    self._container_store(n.func.value, f, env, val)
                return {NONE}
            if name == "pop":
                return set(cont[1])
            if name == "copy":
                return {cont}
            if name == "index" or name == "count":
                return {PRIM}
            if name in ("union", "intersection", "difference"):
                return {cont}
            if name == "update":
                self._container_store(n.func.value, f, env, elems_of(pos[0]) if pos else set())
                return {NONE}
            if name == "join":
                return {PRIM}
            return {EXT}
        return {EXT}

    def _container_store(self, base, f, env, val, dict_update=False):
        """x.append(v) / self.attr.append(v): widen the container's element type."""
        if dict_update:
            newvals = set()
            for a in val:
                if a[0] == "dict":
                    newvals |= a[1]
            val = newvals
        if isinstance(base, ast.Name):
            cur = self._lookup(base.id, f, env)
            for a in cur:
                if a[0] == "list":
                    self._join(env, base.id, {mk_list(a[1] | frozenset(val))})
                elif a[0] == "dict":
                    self._join(env, base.id, {mk_dict(a[1] | frozenset(val))})
            kind, q = self.prog.resolve(f.module, base.id)
            if kind == "var" and base.id not in env:
                for a in list(self.global_types.get(q, set())):
                    if a[0] == "dict":
                        self._join(self.global_types, q, {mk_dict(a[1] | frozenset(val))})
        elif isinstance(base, ast.Attribute):
            r = self._expr(base.value, f, env)
            for a in r:
                if a[0] == "inst":
                    for c in list(self.field_types.get((a[1], base.attr), set())):
                        if c[0] == "list":
                            self._join(self.field_types, (a[1], base.attr), {mk_list(c[1] | frozenset(val))})
                        elif c[0] == "dict":
                            self._join(self.field_types, (a[1], base.attr), {mk_dict(c[1] | frozenset(val))})

    def _external(self, name, dn, n, pos, star, f, env):
        short_ = (dn or name or "").split(".")[-1]
        full = dn or name
        if full in IDENTITY_FUNCS or short_ in ("deepcopy",):
            out = set()
            for t in pos[:1]:
                for a in t:
                    if a[0] in ("list", "dict", "tuple", "inst"):
                        out.add(a if a[0] != "tuple" else mk_list(set().union(*a[1])))
                    else:
                        out.add(mk_list({EXT}) if full in ("list", "tuple", "sorted", "set") else EXT)
            return out or {EXT}
        if full in ("product", "itertools.product"):
            return {mk_list({mk_tuple([elems_of(t) for t in pos])})} if not star else {mk_list({mk_list(star)})}
        if full in ("combinations", "itertools.combinations", "permutations"):
            return {mk_list({mk_list(elems_of(pos[0]) if pos else set())})}
        if full == "enumerate":
            return {mk_list({mk_tuple([{PRIM}, elems_of(pos[0]) if pos else set()])})}
        if full == "zip":
            return {mk_list({mk_tuple([elems_of(t) for t in pos])})}
        if full in ("reduce", "functools.reduce"):
            out = set()
            if pos:
                for a in pos[0]:
                    if a[0] == "func" and a[1] in self.prog.functions:
                        callee = self.prog.functions[a[1]]
                        el = elems_of(pos[1]) if len(pos) > 1 else set()
                        self._bind(callee, [el | self.ret_types[a[1]], el], {}, set(), set())
                        out |= self.ret_types[a[1]]
                if len(pos) > 1:
                    out |= elems_of(pos[1])
            return out or {EXT}
        if full in ("isinstance", "hasattr", "callable", "len", "str", "int", "float", "bool", "repr", "hash", "id", "any", "all", "sum", "min", "max", "abs", "round"):
            if full in ("str", "repr", "hash") and pos:
                for a in pos[0]:
                    if a[0] == "inst":
                        self._method_call(f, n, a[1], {"str": "__str__", "repr": "__repr__", "hash": "__hash__"}[full], [], {}, "operator")
                    if full == "hash":
                        for e in self._deep_insts(a):
                            self._method_call(f, n, e, "__hash__", [], {}, "operator")
            if full == "len" and pos:
                for a in pos[0]:
                    if a[0] == "inst":
                        self._method_call(f, n, a[1], "__len__", [], {}, "operator")
            return {PRIM}
        if full == "getattr":
            out = set()
            if pos and len(n.args) >= 2 and is_str_const(n.args[1]):
                for a in pos[0]:
                    if a[0] == "inst":
                        out |= self._inst_attr(f, n, self.prog.classes.get(a[1]), n.args[1].value)
            return out or {EXT}
        if full == "setattr":
            if len(n.args) == 3 and pos:
                for a in pos[0]:
                    if a[0] == "inst":
                        cls = self.prog.classes.get(a[1])
                        if is_str_const(n.args[1]):
                            self._join(self.field_types, (a[1], n.args[1].value), pos[2] if len(pos) > 2 else set())
                        m = self._find_method(cls, "__setattr__")
                        if m is not None:
                            self._site(f, n, "call").targets.add(m.qual)
                            self._bind(m, pos, {}, set(), set())
            return {NONE}
        if full == "type" and len(pos) == 1:
            out = set()
            for a in pos[0]:
                out.add(("cls", a[1]) if a[0] == "inst" else EXT)
            return out or {EXT}
        if full == "super":
            return {EXT}
        if full in ("range",):
            return {mk_list({PRIM})}
        if full in ("dict",):
            return {mk_dict({EXT})}
        return {EXT}

    def _deep_insts(self, atom):
        out = set()
        if atom[0] == "inst":
            out.add(atom[1])
        elif atom[0] in ("list", "dict"):
            for e in atom[1]:
                out |= self._deep_insts(e)
        elif atom[0] == "tuple":
            for p in atom[1]:
                for e in p:
                    out |= self._deep_insts(e)
        return out

    # ---- public queries --------------------------------------------------------------
    def type_of(self, f, node):
        """type of an expression node inside function f (after the fixpoint)"""
        self.changed = False
        return self._expr(node, f, self.local_types[f.qual])

    def callees(self, fq):
        out = set()
        for s in self.sites[fq].values():
            out |= s.targets
        return out

    def call_graph(self):
        return {q: self.callees(q) for q in self.prog.functions}

    def reachable(self, roots, stop=()):
        g = self.call_graph()
        seen = set()
        stack = list(roots)
        parent = {}
        while stack:
            q = stack.pop()
            if q in seen or q in stop:
                continue
            seen.add(q)
            for t in sorted(g.get(q, ())):
                if t not in seen:
                    parent.setdefault(t, q)
                    stack.append(t)
        self._parent = parent
        return seen

    def path_to(self, q):
        out = [q]
        while out[-1] in getattr(self, "_parent", {}):
            out.append(self._parent[out[-1]])
        return list(reversed(out))

    def insts(self, t):
        return {a[1] for a in t if a[0] == "inst"}


class _ModuleScope:
    """Stand-in for a FunctionInfo when evaluating module-level / class-level expressions."""

    def __init__(self, module):
        self.module = module
        self.qual = module.name + ".<module>"
        self.cls = None
        self.parent = None

    def loc(self, node):
        return f"{self.module.relpath}:{getattr(node, 'lineno', 0)}"


# --------------------------------------------------------------------------------------
def _const_pairs(expr, mod):
    """the (key node, value node) pairs a comprehension / generator over module-level literal tables produces, evaluated on the
    syntax (literal tuples and lists, names bound once at module level, zip, itertools.repeat); None if anything else occurs"""
    class Repeat:
        def __init__(self, node):
            self.node = node

    def resolve(e, env):
        if isinstance(e, ast.Name) and e.id in env:
            return env[e.id]
        return e

    def items(e, env, depth=0):
        if depth > 6:
            return None
        e = resolve(e, env)
        if isinstance(e, (ast.Tuple, ast.List)):
            return [resolve(x, env) for x in e.elts]
        if isinstance(e, ast.Name):
            vals = mod.globals.get(e.id, [])
            if len(vals) == 1 and vals[0] is not None:
                return items(vals[0], env, depth + 1)
            return None
        if isinstance(e, ast.Call) and dotted(e.func) in ("repeat", "itertools.repeat") and len(e.args) == 1:
            return Repeat(resolve(e.args[0], env))
        if isinstance(e, ast.Call) and dotted(e.func) == "zip" and e.args and not e.keywords:
            cols = [items(a, env, depth + 1) for a in e.args]
            if any(c is None for c in cols):
                return None
            finite = [len(c) for c in cols if not isinstance(c, Repeat)]
            if not finite:
                return None
            n = min(finite)
            return [ast.Tuple(elts=[(c.node if isinstance(c, Repeat) else c[i]) for c in cols], ctx=ast.Load()) for i in range(n)]
        if isinstance(e, (ast.GeneratorExp, ast.ListComp)):
            return comp(e, env, depth + 1)
        if isinstance(e, ast.Call) and dotted(e.func) in ("list", "tuple") and len(e.args) == 1:
            return items(e.args[0], env, depth + 1)
        return None

    def bind(target, value, env):
        if isinstance(target, ast.Name):
            env = dict(env)
            env[target.id] = value
            return env
        if isinstance(target, (ast.Tuple, ast.List)) and isinstance(value, (ast.Tuple, ast.List)) and len(target.elts) == len(value.elts):
            for t, v in zip(target.elts, value.elts):
                env = bind(t, v, env)
                if env is None:
                    return None
            return env
        return None

    def comp(c, env, depth):
        out = []

        def rec(gi, env):
            if gi == len(c.generators):
                e = c.elt
                if isinstance(e, ast.Tuple):
                    out.append(ast.Tuple(elts=[resolve(x, env) for x in e.elts], ctx=ast.Load()))
                else:
                    out.append(resolve(e, env))
                return True
            g = c.generators[gi]
            if g.ifs:
                return False
            its = items(g.iter, env, depth)
            if its is None or isinstance(its, Repeat):
                return False
            for it in its:
                e2 = bind(g.target, it, env)
                if e2 is None or not rec(gi + 1, e2):
                    return False
            return True

        return out if rec(0, env) else None

    res = items(expr, {})
    if res is None or isinstance(res, Repeat):
        return None
    pairs = []
    for r in res:
        if not (isinstance(r, ast.Tuple) and len(r.elts) == 2):
            return None
        pairs.append((r.elts[0], r.elts[1]))
    return pairs


def extract_registry(prog):
    """Statically extract TRANSFORMS / ENCODINGS: name -> ('class'|'func', qual)."""
    tm = prog.mod("transforms")
    cm = prog.mod("categorical")
    names = {}
    reg = prog.functions.get("formulae.transforms.register_stateful_transform")
    if reg is None:
        raise AnalysisError("register_stateful_transform not found")
    stateful = []
    for cname, c in tm.classes.items():
        for d in c.node.decorator_list:
            if dotted(d) == "register_stateful_transform":
                key = cname
                if "__transform_name__" in c.class_attrs and is_str_const(c.class_attrs["__transform_name__"]):
                    key = c.class_attrs["__transform_name__"].value
                names[key] = ("class", c.qual)
                stateful.append(c.qual)
    found_update = False
    for node in tm.tree.body:
        if isinstance(node, ast.Expr) and isinstance(node.value, ast.Call) and dotted(node.value.func) == "TRANSFORMS.update":
            found_update = True
            arg = node.value.args[0]
            if isinstance(arg, ast.Name) and len(tm.globals.get(arg.id, [])) == 1 and tm.globals[arg.id][0] is not None:
                arg = tm.globals[arg.id][0]  # a module-level table bound once
            if isinstance(arg, ast.Call) and dotted(arg.func) == "dict" and len(arg.args) == 1 and not arg.keywords:
                arg = arg.args[0]
            if isinstance(arg, (ast.Tuple, ast.List)) and all(isinstance(e, ast.Tuple) and len(e.elts) == 2 for e in arg.elts):
                # a sequence of (name, callable) pairs: later pairs win, as in dict.update
                arg = ast.Dict(keys=[e.elts[0] for e in arg.elts], values=[e.elts[1] for e in arg.elts])
            if not isinstance(arg, ast.Dict):
                pairs = _const_pairs(arg, tm)
                if pairs is not None:
                    arg = ast.Dict(keys=[k for k, _ in pairs], values=[v for _, v in pairs])
            if not isinstance(arg, ast.Dict):
                raise AnalysisError("TRANSFORMS.update argument is not a dict display")
            for k, v in zip(arg.keys, arg.values):
                if not (is_str_const(k) and isinstance(v, ast.Name)):
                    raise AnalysisError(f"TRANSFORMS.update entry not `str: name`: {unparse(k)}: {unparse(v)}")
                kind, q = prog.resolve(tm, v.id)
                if kind not in ("class", "func"):
                    raise AnalysisError(f"TRANSFORMS entry {k.value} -> {v.id} is not a package class/function")
                names[k.value] = (kind, q)
    # module-level statements that store into the registry directly, or through a small registering helper
    def helper_shape(h):
        """a module-level function whose whole effect is `for n in <names param>: TRANSFORMS[n] = <obj param>` (names given as
        *varargs or as one sequence parameter): (position of the object parameter, names-parameter kind) or None"""
        body = [st for st in h.node.body if not (isinstance(st, ast.Expr) and isinstance(st.value, ast.Constant))]
        a = h.node.args
        if len(body) != 1 or not isinstance(body[0], ast.For) or a.kwarg or a.kwonlyargs:
            return None
        lp = body[0]
        if not (isinstance(lp.target, ast.Name) and isinstance(lp.iter, ast.Name) and len(lp.body) == 1 and isinstance(lp.body[0], ast.Assign)):
            return None
        st = lp.body[0]
        t = st.targets[0]
        if not (isinstance(t, ast.Subscript) and unparse(t.value) == "TRANSFORMS" and unparse(t.slice) == lp.target.id and isinstance(st.value, ast.Name)):
            return None
        params = [x.arg for x in a.args]
        if st.value.id not in params:
            return None
        if a.vararg and a.vararg.arg == lp.iter.id:
            return params.index(st.value.id), "varargs"
        if lp.iter.id in params:
            return params.index(st.value.id), ("seq", params.index(lp.iter.id))
        return None

    def add(name_node, obj_node):
        if not (is_str_const(name_node) and isinstance(obj_node, ast.Name)):
            raise AnalysisError(f"TRANSFORMS entry not `str: name`: {unparse(name_node)}: {unparse(obj_node)}")
        kind, q = prog.resolve(tm, obj_node.id)
        if kind not in ("class", "func"):
            raise AnalysisError(f"TRANSFORMS entry {name_node.value} -> {obj_node.id} is not a package class/function")
        names[name_node.value] = (kind, q)

    for node in tm.tree.body:
        if isinstance(node, ast.Assign) and len(node.targets) == 1 and isinstance(node.targets[0], ast.Subscript) \
                and unparse(node.targets[0].value) == "TRANSFORMS":
            add(node.targets[0].slice, node.value)
            found_update = True
        if isinstance(node, ast.Expr) and isinstance(node.value, ast.Call) and isinstance(node.value.func, ast.Name):
            h = tm.functions.get(node.value.func.id)
            shp = helper_shape(h) if h is not None and h.name != "register_stateful_transform" else None
            if shp is None:
                continue
            c = node.value
            if c.keywords or any(isinstance(x, ast.Starred) for x in c.args):
                raise AnalysisError(f"registry helper call `{unparse(c)[:60]}` uses keywords / star arguments")
            obj_pos, names_kind = shp
            if names_kind == "varargs":
                nparams = len(h.node.args.args)
                obj = c.args[obj_pos]
                for nm in c.args[nparams:]:
                    add(nm, obj)
            else:
                seq = c.args[names_kind[1]]
                if not isinstance(seq, (ast.List, ast.Tuple)):
                    raise AnalysisError(f"registry helper call `{unparse(c)[:60]}`: names are not a literal sequence")
                for nm in seq.elts:
                    add(nm, c.args[obj_pos])
            found_update = True
    if not found_update:
        raise AnalysisError("TRANSFORMS.update({...}) not found in transforms.py")
    enc = {}
    vals = cm.globals.get("ENCODINGS")
    if not vals or not isinstance(vals[0], ast.Dict):
        raise AnalysisError("ENCODINGS literal not found in categorical.py")
    for k, v in zip(vals[0].keys, vals[0].values):
        kind, q = prog.resolve(cm, v.id)
        enc[k.value] = (kind, q)
    allc = sorted(set(names.values()) | set(enc.values()))
    return {"transforms": names, "encodings": enc, "callables": allc, "stateful": stateful}

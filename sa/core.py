"""Engine core: loader, symbol table, reports, evidence, known findings.

Everything here reads source text only (``ast``); nothing from the analysed
package is imported or executed.
"""
import ast
import hashlib
import json
import os
import sys
import time

VERIF = os.path.dirname(os.path.dirname(os.path.abspath(__file__)))
PKG = "formulae"


def repo_root():
    return os.environ.get("FORMULAE_SRC", "/repo")


class AnalysisError(Exception):
    """The analysis itself cannot proceed (anchor vanished, unmodelled idiom,
    instance count below floor).  Exit code 2, never a property verdict."""


# --------------------------------------------------------------------------------------
# small AST helpers
# --------------------------------------------------------------------------------------
def unparse(node):
    if node is None:
        return "None"
    if isinstance(node, list):
        return "; ".join(unparse(n) for n in node)
    try:
        return ast.unparse(node)
    except Exception:  # pragma: no cover
        return ast.dump(node)


def short(node, n=110):
    s = " ".join(unparse(node).split())
    return s if len(s) <= n else s[: n - 3] + "..."


def dotted(node):
    """'a.b.c' for Name/Attribute chains, else None."""
    parts = []
    while isinstance(node, ast.Attribute):
        parts.append(node.attr)
        node = node.value
    if isinstance(node, ast.Name):
        parts.append(node.id)
        return ".".join(reversed(parts))
    return None


def is_self_attr(node, attr=None):
    return (
        isinstance(node, ast.Attribute)
        and isinstance(node.value, ast.Name)
        and node.value.id == "self"
        and (attr is None or node.attr == attr)
    )


def const_value(node, default=None):
    if isinstance(node, ast.Constant):
        return node.value
    return default


def is_str_const(node, value=None):
    return (
        isinstance(node, ast.Constant)
        and isinstance(node.value, str)
        and (value is None or node.value == value)
    )


def walk_local(node):
    """ast.walk that does not descend into nested function/class definitions
    (the root itself may be a function)."""
    stack = [node]
    first = True
    while stack:
        n = stack.pop()
        if not first and isinstance(n, (ast.FunctionDef, ast.AsyncFunctionDef, ast.ClassDef, ast.Lambda)):
            continue
        first = False
        yield n
        stack.extend(reversed(list(ast.iter_child_nodes(n))))


def walk_in_order(node):
    """Pre-order, source-order traversal including nested defs."""
    yield node
    for c in ast.iter_child_nodes(node):
        yield from walk_in_order(c)


def calls_in(node, local=True):
    it = walk_local(node) if local else ast.walk(node)
    return [n for n in it if isinstance(n, ast.Call)]


def call_name(call):
    """dotted name of the callee of a Call node (or None)."""
    return dotted(call.func)


def names_in(node):
    return {n.id for n in ast.walk(node) if isinstance(n, ast.Name)}


def strip_docstring(body):
    if body and isinstance(body[0], ast.Expr) and is_str_const(body[0].value):
        return body[1:]
    return body


def stmt_terminates(stmt):
    """True if the statement always leaves the enclosing block (return/raise/
    break/continue, or an if whose all branches do)."""
    if isinstance(stmt, (ast.Return, ast.Raise, ast.Break, ast.Continue)):
        return True
    if isinstance(stmt, ast.If):
        return bool(stmt.orelse) and block_terminates(stmt.body) and block_terminates(stmt.orelse)
    return False


def block_terminates(body):
    return any(stmt_terminates(s) for s in body)


def block_raises(body):
    """Every path through the block ends in raise."""
    body = strip_docstring(body)
    if not body:
        return False
    last = body[-1]
    if isinstance(last, ast.Raise):
        return True
    if isinstance(last, ast.If):
        return bool(last.orelse) and block_raises(last.body) and block_raises(last.orelse)
    return False


# --------------------------------------------------------------------------------------
# program model
# --------------------------------------------------------------------------------------
def bound_args(callee_node, call, skip_first=False):
    """{parameter name: rendered argument} of `call` against the signature of the def `callee_node`; parameters not given take
    their rendered default; None when the call cannot be bound statically (star arguments, unknown keyword, too many)."""
    a = callee_node.args
    pos = [x.arg for x in a.posonlyargs + a.args]
    if skip_first:
        pos = pos[1:]
    defaults = {}
    dl = list(a.defaults)
    for name, d in zip(pos[len(pos) - len(dl):] if dl else [], dl):
        defaults[name] = unparse(d)
    for x, d in zip(a.kwonlyargs, a.kw_defaults):
        if d is not None:
            defaults[x.arg] = unparse(d)
    if any(isinstance(x, ast.Starred) for x in call.args) or any(k.arg is None for k in call.keywords):
        return None
    if len(call.args) > len(pos) and not a.vararg:
        return None
    out = dict(defaults)
    for name, v in zip(pos, call.args):
        out[name] = unparse(v)
    known = set(pos) | {x.arg for x in a.kwonlyargs}
    for k in call.keywords:
        if k.arg not in known and not a.kwarg:
            return None
        out[k.arg] = unparse(k.value)
    return out


class ModuleInfo:
    def __init__(self, name, path, relpath, source):
        self.name = name
        self.path = path
        self.relpath = relpath
        self.source = source
        self.sha256 = hashlib.sha256(source.encode()).hexdigest()
        self.tree = ast.parse(source, filename=path)
        from .desugar import desugar
        self.tree = desugar(self.tree)
        self.functions = {}
        self.classes = {}
        self.imports = {}  # local name -> dotted target ("numpy", "formulae.expr.Assign")
        self.globals = {}  # name -> list of value nodes assigned at module level
        self.is_package = os.path.basename(path) == "__init__.py"


class ClassInfo:
    def __init__(self, qual, node, module):
        self.qual = qual
        self.name = node.name
        self.node = node
        self.module = module
        self.methods = {}  # name -> FunctionInfo (property getter under its name)
        self.setters = {}  # property name -> FunctionInfo
        self.bases = [dotted(b) or unparse(b) for b in node.bases]
        self.class_attrs = {}  # name -> value node

    @property
    def where(self):
        return f"{self.module.relpath}:{self.node.lineno}"


class FunctionInfo:
    def __init__(self, qual, node, module, cls=None, parent=None):
        self.qual = qual
        self.name = node.name
        self.node = node
        self.module = module
        self.cls = cls
        self.parent = parent
        self.nested = {}
        decs = [dotted(d) or (dotted(d.func) if isinstance(d, ast.Call) else unparse(d)) for d in node.decorator_list]
        self.decorators = decs
        self.is_property = "property" in decs
        self.is_setter = any(d and d.endswith(".setter") for d in decs)
        self.is_classmethod = "classmethod" in decs
        self.is_staticmethod = "staticmethod" in decs

    @property
    def where(self):
        return f"{self.module.relpath}:{self.node.lineno}"

    @property
    def body(self):
        return strip_docstring(self.node.body)

    @property
    def params(self):
        a = self.node.args
        return [x.arg for x in a.posonlyargs + a.args]

    def loc(self, node):
        return f"{self.module.relpath}:{getattr(node, 'lineno', self.node.lineno)}"


class Program:
    def __init__(self, root=None, normalise=True):
        self.root = root or repo_root()
        self.modules = {}
        self.functions = {}
        self.classes = {}
        self.inlined = []
        self.const_subst = []
        self.swapped = []
        self.differing = []
        self.dropped_helpers = []
        self.renamed = []
        self.relocated = []
        self._load()
        if normalise and not os.environ.get("VERIF_NO_NORMALISE"):
            from . import inline

            inline.undo_attribute_renames(self)
            inline.undo_renames(self)
            inline.undo_attribute_renames(self)
            inline.normalise(self)

    def _reindex(self):
        """rebuild the symbol tables from the (possibly rewritten) module trees"""
        self.functions = {}
        self.classes = {}
        for m in self.modules.values():
            m.classes, m.functions, m.imports, m.globals = {}, {}, {}, {}
        for m in self.modules.values():
            self._index_module(m)

    # ---- loading -------------------------------------------------------------------
    def _load(self):
        pkgdir = os.path.join(self.root, PKG)
        if not os.path.isdir(pkgdir):
            raise AnalysisError(f"package directory {pkgdir} not found")
        paths = []
        for d, dirs, files in os.walk(pkgdir):
            dirs[:] = sorted(x for x in dirs if x != "__pycache__")
            for f in sorted(files):
                if f.endswith(".py"):
                    paths.append(os.path.join(d, f))
        for p in paths:
            rel = os.path.relpath(p, self.root)
            mod = rel[:-3].replace(os.sep, ".")
            if mod.endswith(".__init__"):
                mod = mod[: -len(".__init__")]
            with open(p, encoding="utf-8") as fh:
                src = fh.read()
            try:
                m = ModuleInfo(mod, p, rel, src)
            except SyntaxError as e:
                raise AnalysisError(f"syntax error in {rel}: {e}")
            self.modules[mod] = m
        for m in self.modules.values():
            self._index_module(m)

    def _index_module(self, m):
        for node in m.tree.body:
            self._index_stmt(m, node)

    def _index_stmt(self, m, node):
        if isinstance(node, (ast.FunctionDef, ast.AsyncFunctionDef)):
            self._add_function(m, node, None, None, m.name)
        elif isinstance(node, ast.ClassDef):
            qual = f"{m.name}.{node.name}"
            c = ClassInfo(qual, node, m)
            m.classes[node.name] = c
            self.classes[qual] = c
            for s in node.body:
                if isinstance(s, (ast.FunctionDef, ast.AsyncFunctionDef)):
                    f = self._add_function(m, s, c, None, qual)
                    if f.is_setter:
                        c.setters[s.name] = f
                    else:
                        c.methods[s.name] = f
                elif isinstance(s, ast.Assign):
                    for t in s.targets:
                        if isinstance(t, ast.Name):
                            c.class_attrs[t.id] = s.value
                elif isinstance(s, ast.AnnAssign) and isinstance(s.target, ast.Name) and s.value is not None:
                    c.class_attrs[s.target.id] = s.value
        elif isinstance(node, ast.Import):
            for a in node.names:
                m.imports[a.asname or a.name.split(".")[0]] = a.name if a.asname else a.name.split(".")[0]
        elif isinstance(node, ast.ImportFrom):
            base = node.module or ""
            if node.level:
                parts = m.name.split(".")
                if not m.is_package:
                    parts = parts[:-1]
                parts = parts[: len(parts) - (node.level - 1)]
                base = ".".join(parts + ([node.module] if node.module else []))
            for a in node.names:
                m.imports[a.asname or a.name] = f"{base}.{a.name}"
        elif isinstance(node, (ast.Assign, ast.AnnAssign, ast.AugAssign)):
            targets = node.targets if isinstance(node, ast.Assign) else [node.target]
            for t in targets:
                if isinstance(t, ast.Name):
                    m.globals.setdefault(t.id, []).append(getattr(node, "value", None))
        elif isinstance(node, (ast.If, ast.Try)):
            for s in ast.iter_child_nodes(node):
                if isinstance(s, ast.stmt):
                    self._index_stmt(m, s)

    def _add_function(self, m, node, cls, parent, prefix):
        qual = f"{prefix}.{node.name}"
        f = FunctionInfo(qual, node, m, cls, parent)
        if f.is_setter:
            qual = qual + ".setter"
            f.qual = qual
        self.functions[qual] = f
        if cls is None and parent is None:
            m.functions[node.name] = f
        if parent is not None:
            parent.nested[node.name] = f
        for n in walk_local(node):
            if n is not node and False:
                pass
        # nested defs (direct or inside compound statements, not inside other defs)
        for n in self._nested_defs(node):
            self._add_function(m, n, cls, f, f.qual)
        return f

    @staticmethod
    def _nested_defs(fnode):
        out = []
        stack = list(fnode.body)
        while stack:
            n = stack.pop(0)
            if isinstance(n, (ast.FunctionDef, ast.AsyncFunctionDef)):
                out.append(n)
                continue
            if isinstance(n, (ast.ClassDef, ast.Lambda)):
                continue
            stack = [c for c in ast.iter_child_nodes(n) if isinstance(c, (ast.stmt, ast.ExceptHandler))] + stack
        return out

    # ---- lookup ---------------------------------------------------------------------
    def fn(self, qual):
        if not qual.startswith(PKG + "."):
            qual = f"{PKG}.{qual}"
        f = self.functions.get(qual)
        if f is None:
            raise AnalysisError(f"anchor function {qual} not found")
        return f

    def has_fn(self, qual):
        if not qual.startswith(PKG + "."):
            qual = f"{PKG}.{qual}"
        return qual in self.functions

    def cls(self, qual):
        if not qual.startswith(PKG + "."):
            qual = f"{PKG}.{qual}"
        c = self.classes.get(qual)
        if c is None:
            raise AnalysisError(f"anchor class {qual} not found")
        return c

    def mod(self, name):
        if not name.startswith(PKG):
            name = f"{PKG}.{name}"
        m = self.modules.get(name)
        if m is None:
            raise AnalysisError(f"anchor module {name} not found")
        return m

    def resolve(self, module, name, _depth=0):
        """Resolve a bare name used in `module` to ('class'|'func'|'module'|'var'|'ext', qual)."""
        if _depth > 10:
            return ("ext", name)
        if name in module.classes:
            return ("class", module.classes[name].qual)
        if name in module.functions:
            return ("func", module.functions[name].qual)
        if name in module.imports:
            target = module.imports[name]
            if target in self.modules:
                return ("module", target)
            if target.startswith(PKG + ".") or target == PKG:
                modname, _, sym = target.rpartition(".")
                if modname in self.modules:
                    return self.resolve(self.modules[modname], sym, _depth + 1)
            return ("ext", target)
        if name in module.globals:
            return ("var", f"{module.name}.{name}")
        return ("ext", name)

    def resolve_dotted(self, module, dn):
        """Resolve 'a.b' where a is a package module alias."""
        parts = dn.split(".")
        kind, q = self.resolve(module, parts[0])
        for p in parts[1:]:
            if kind == "module" and q in self.modules:
                kind, q = self.resolve(self.modules[q], p)
            elif kind == "class" and q in self.classes and p in self.classes[q].methods:
                kind, q = "func", self.classes[q].methods[p].qual
            elif kind == "ext":
                q = f"{q}.{p}"
            else:
                return ("ext", dn)
        return (kind, q)

    def file_digests(self):
        return {m.relpath: m.sha256 for m in self.modules.values()}


# --------------------------------------------------------------------------------------
# reporting
# --------------------------------------------------------------------------------------
class Report:
    def __init__(self, prop):
        self.prop = prop
        self.items = []
        self.counts = {}
        self.floors = {}
        self.notes = []
        self.extra = {}
        self.deferred = []  # analysis errors that only matter if no violation was found

    def _add(self, verdict, rule, where, function, construct, why, nontrivial):
        self.items.append(
            {
                "rule": rule,
                "where": where,
                "function": function,
                "construct": construct,
                "verdict": verdict,
                "why": why,
                "nontrivial": bool(nontrivial),
            }
        )
        self.counts[rule] = self.counts.get(rule, 0) + 1

    def ok(self, rule, where, function, construct, why="", nontrivial=True):
        self._add("ok", rule, where, function, construct, why, nontrivial)

    def bad(self, rule, where, function, construct, why):
        self._add("violation", rule, where, function, construct, why, True)

    def info(self, rule, where, function, construct, why):
        self._add("info", rule, where, function, construct, why, False)

    def check(self, cond, rule, where, function, construct, why_ok="", why_bad=None, nontrivial=True):
        if cond:
            self.ok(rule, where, function, construct, why_ok, nontrivial)
        else:
            self.bad(rule, where, function, construct, why_bad or why_ok)
        return bool(cond)

    def floor(self, rule, n):
        self.floors[rule] = n

    def note(self, text):
        self.notes.append(text)

    def defer(self, text):
        """an unmodelled idiom met by one rule instance: ANALYSIS-ERROR unless the tree has real violations anyway"""
        self.deferred.append(text)
        if getattr(self, "parent", None) is not None:
            self.parent.defer(text)

    def sub(self):
        """a scratch report for re-using another property's rule under a rule id of this property; what the re-used rule
        defers is deferred here as well (an unmodelled idiom must never vanish)"""
        r = type(self)(self.prop)
        r.parent = self
        return r


def reuse_rule(rep, rule_fn, new_rule, *args, keep=None, **kw):
    """run another property's rule function in a scratch report and adopt its obligations under `new_rule`"""
    sub = rep.sub()
    rule_fn(*args[:1], sub, *args[1:], **kw)
    n = 0
    for it in sub.items:
        if keep is not None and not keep(it):
            continue
        it = dict(it)
        it["rule"] = new_rule
        rep.items.append(it)
        rep.counts[new_rule] = rep.counts.get(new_rule, 0) + 1
        n += 1
    return n


def guard_rules(namespace, extra=()):
    """Wrap every rule function of a rules module (names r<digits>_..., plus `extra`) so that an AnalysisError raised inside one
    rule is *deferred* on the report it was given and the remaining rules still run: a violation found by another rule is then
    reported (exit 1); without any violation the deferred message makes the run an ANALYSIS-ERROR (exit 2) as before."""
    import functools
    import re as _re

    def wrap(f):
        @functools.wraps(f)
        def inner(*a, **k):
            rep = next((x for x in a if isinstance(x, Report)), None) or next((x for x in k.values() if isinstance(x, Report)), None)
            try:
                return f(*a, **k)
            except AnalysisError as e:
                if rep is None:
                    raise
                rep.defer(f"{f.__name__}: {e}")
                return None
        inner._guarded = True
        return inner

    for name, obj in list(namespace.items()):
        if callable(obj) and getattr(obj, "__module__", None) == namespace.get("__name__") and not getattr(obj, "_guarded", False) \
                and (_re.match(r"r\d+_", name) or name in extra):
            namespace[name] = wrap(obj)


def obl(rep, fn, node, rule, cond, construct, why_ok="", why_bad=None, nontrivial=True):
    """Convenience: obligation located at `node` inside FunctionInfo `fn`."""
    where = fn.loc(node) if node is not None else fn.where
    return rep.check(cond, rule, where, fn.qual, construct, why_ok, why_bad, nontrivial)


def load_known():
    p = os.path.join(VERIF, "known_findings.json")
    if not os.path.exists(p):
        return {"findings": [], "fixed": []}
    with open(p) as fh:
        return json.load(fh)


def norm(s):
    return " ".join(str(s).split())


def unlisted_violations(rep):
    """violations of rep that the known-findings file does not list (without changing rep)"""
    kf = [k for k in load_known().get("findings", []) if k["property"] == rep.prop]
    out = []
    for it in rep.items:
        if it["verdict"] != "violation":
            continue
        if not any(k["rule"] == it["rule"] and norm(k["function"]) == norm(it["function"]) and norm(k["construct"]) == norm(it["construct"]) for k in kf):
            out.append(it)
    return out


def finish(rep, tier, t0, explanation, assumptions, prog, extra=None):
    """Match known findings, enforce floors, write evidence, print verdict lines.
    Returns the process exit code."""
    known = load_known()
    kf = [k for k in known.get("findings", []) if k["property"] == rep.prop]
    matched = []
    violations = []
    for it in rep.items:
        if it["verdict"] != "violation":
            continue
        hit = None
        for k in kf:
            if (
                k["rule"] == it["rule"]
                and norm(k["function"]) == norm(it["function"])
                and norm(k["construct"]) == norm(it["construct"])
            ):
                hit = k
                break
        if hit is not None:
            it["verdict"] = "known"
            matched.append((hit, it))
        else:
            violations.append(it)
    if rep.deferred and not violations:
        raise AnalysisError("; ".join(rep.deferred[:3]))
    # floors (a rule that stopped early because it found a violation is not "vacuous")
    for rule, n in rep.floors.items():
        if rep.counts.get(rule, 0) < n and not violations:
            raise AnalysisError(
                f"rule {rule} matched {rep.counts.get(rule, 0)} instance(s), below the floor {n} "
                "confirmed by hand on the pinned tree (rule would pass vacuously)"
            )
    obligations = [it for it in rep.items if it["verdict"] in ("ok", "violation", "known")]
    discharged = [it for it in obligations if it["verdict"] == "ok"]
    distinct = {
        (it["rule"], it["function"], it["construct"]) for it in obligations if it["nontrivial"]
    }
    seed = int(os.environ.get("VERIF_SEED", "0") or 0)
    import random

    rnd = random.Random(seed)
    pool = [it for it in obligations if it["nontrivial"]]
    samples = [it for it in rep.items if it["verdict"] in ("violation", "known")][:15]
    rest = [it for it in pool if it["verdict"] == "ok"]
    rnd.shuffle(rest)
    samples += rest[: max(0, 25 - len(samples))]
    per_rule = {}
    for it in rep.items:
        d = per_rule.setdefault(it["rule"], {"ok": 0, "violation": 0, "known": 0, "info": 0})
        d[it["verdict"]] += 1
    for rule, n in rep.floors.items():
        per_rule.setdefault(rule, {"ok": 0, "violation": 0, "known": 0, "info": 0})["floor"] = n
    ev = {
        "property_id": rep.prop,
        "tier": tier,
        "seed": seed,
        "level": "other",
        "coverage": {
            "explanation": explanation,
            "obligations": len(obligations),
            "discharged": len(discharged),
            "evaluations": len(rep.items),
            "distinct_nontrivial": len(distinct),
            "rule": "one case = one rule instance (rule, function, construct) decided on the AST/CFG/call "
            "graph of /repo's working tree; non-trivial = the decision needed more than the "
            "existence of the anchor (dominance, def-use, table agreement, dispatch, typing ...); "
            "distinct by (rule, function, normalised construct)",
            "samples": [
                {k: it[k] for k in ("rule", "where", "function", "construct", "verdict", "why")}
                for it in samples
            ],
            "exhaustive": True,
            "per_rule": per_rule,
            "files": prog.file_digests() if prog else {},
            "functions_in_package": len(prog.functions) if prog else 0,
            "classes_in_package": len(prog.classes) if prog else 0,
            "known_findings_matched": [
                {"rule": k["rule"], "function": k["function"], "construct": k["construct"]}
                for k, _ in matched
            ],
            "info": [
                {k: it[k] for k in ("rule", "where", "function", "construct", "why")}
                for it in rep.items
                if it["verdict"] == "info"
            ][:60],
            "notes": rep.notes,
            "source_root": prog.root if prog else None,
            "normalisation": {"helpers_inlined": sorted({f"{a} <- {b}" for a, b in getattr(prog, "inlined", [])})[:40],
                              "constants_propagated": sorted({b for a, b in getattr(prog, "const_subst", [])})[:40],
                              "functions_canonically_equal_to_reference": sorted(getattr(prog, "swapped", []))[:60],
                              "functions_differing_from_reference": sorted(getattr(prog, "differing", []))[:60],
                              "dead_new_helpers_dropped": sorted(getattr(prog, "dropped_helpers", []))[:40]} if prog else {},
        },
        "assumptions": assumptions,
        "wall_s": round(time.time() - t0, 3),
        "violations": len(violations),
    }
    if extra:
        ev["coverage"].update(extra)
    if rep.extra:
        ev["coverage"].update(rep.extra)
    evdir = os.environ.get("VERIF_EVIDENCE_DIR", os.path.join(VERIF, "evidence"))
    os.makedirs(evdir, exist_ok=True)
    with open(os.path.join(evdir, f"{rep.prop}.json"), "w") as fh:
        json.dump(ev, fh, indent=1, sort_keys=False, default=str)
        fh.write("\n")
    print(
        f"{rep.prop} [{tier}] obligations={len(obligations)} discharged={len(discharged)} "
        f"known={len(matched)} violations={len(violations)} info={sum(1 for i in rep.items if i['verdict']=='info')} "
        f"functions={len(prog.functions) if prog else 0} wall={ev['wall_s']}s"
    )
    seen = set()
    for k, it in matched:
        key = (k["rule"], k["function"], k["construct"])
        if key in seen:
            continue
        seen.add(key)
        print(
            f"KNOWN-FINDING: property={rep.prop} {k['rule']} {k['function']} `{norm(k['construct'])}` - {k['what']}"
        )
    if violations:
        vpath = os.path.join(evdir, f"{rep.prop}.violations.json")
        with open(vpath, "w") as fh:
            json.dump(violations, fh, indent=1)
            fh.write("\n")
        for it in violations:
            print(
                f"  {it['where']}  {it['rule']}  {it['function']}  `{norm(it['construct'])}`  {it['why']}"
            )
        print(f"VIOLATION property={rep.prop} replay={vpath}")
        return 1
    else:
        vpath = os.path.join(evdir, f"{rep.prop}.violations.json")
        if os.path.exists(vpath):
            os.remove(vpath)
    return 0

"""Abstract interpretation of the operator overloads of formulae/terms/terms.py in a *term-set*
domain (rule R2.6): every overload body is summarised, per operand-class pair, as a set of outcomes
(path condition, set of generators), where a generator describes a family of terms built from the
operands:

    SELF                                   the left operand itself (a term)
    e | e in CT(OTHER)                     every common term of the right operand
    TERM(comps(SELF) ++ comps(e)) | ...    an interaction built from the components of ...
    GST(I, e) | e in CT(OTHER)             a group-specific intercept per factor term ...

The summaries are compared with the Wilkinson-Rogers / lme4 expansion written down in
`sa/rules/C02.py` (union, difference, pairwise interaction, a*b = a + b + a:b, a/b = a + a:b,
(...)**n, (e|g)).  Inner uses of `+`, `-`, `add_term` on already-summarised values use the set
semantics (union / difference); the bodies of Model.__add__, Model.__sub__ and Model.add_term are
themselves summarised from their loops, so the circle is closed.  Unmodelled idioms are an
AnalysisError (fail closed).  Nothing is executed: values are symbolic descriptions only.
"""
import ast

from .core import AnalysisError, dotted, unparse, strip_docstring

TERMLIKE = ("Term", "Intercept", "NegatedIntercept", "GroupSpecificTerm")


class _Infeasible(Exception):
    pass


class _EmptySource(Exception):
    """a comprehension / loop over the empty list display"""


class _Raised(Exception):
    def __init__(self, what):
        self.what = what


class Gen:
    """a family of terms: template string + sorted binder strings"""

    def __init__(self, template, binders=()):
        self.template = template
        self.binders = tuple(binders)

    def key(self):
        return self.template + ("" if not self.binders else " | " + ", ".join(self.binders))

    def __repr__(self):
        return self.key()


class Val:
    """abstract value: kind in term|gst|I|N|model|list|product|combos|response|opaque|none|notimpl"""

    def __init__(self, kind, **kw):
        self.kind = kind
        self.__dict__.update(kw)

    def __repr__(self):
        return f"Val({self.kind}, {[(k, v) for k, v in self.__dict__.items() if k != 'kind']})"


def term_ref(name):
    return Val("term", ref=name, parts=[f"comps({name})"])


def model_of(gens, response=None, diff=None):
    return Val("model", gens=list(gens), response=response, diff=list(diff or []))


class Summariser:
    def __init__(self, prog):
        self.prog = prog
        self.mod = prog.mod("terms.terms")
        self.counter = 0

    # ---- operands ---------------------------------------------------------------------
    def operand(self, name, cls):
        if cls == "Term":
            return Val("term", ref=name, parts=[f"comps({name})"], cls="Term")
        if cls == "Intercept":
            return Val("I", ref=name, cls=cls)
        if cls == "NegatedIntercept":
            return Val("N", ref=name, cls=cls)
        if cls == "GroupSpecificTerm":
            return Val("gst", ref=name, cls=cls)
        if cls == "Model":
            return Val("modelop", ref=name, cls=cls)
        if cls == "Response":
            return Val("response", ref=name, cls=cls)
        raise AnalysisError(f"algebra: unknown operand class {cls}")

    # ---- element templates ---------------------------------------------------------------
    def elem_key(self, v):
        """template string of a single element value"""
        if v.kind == "term":
            if getattr(v, "ref", None) and v.parts == [f"comps({v.ref})"]:
                return v.ref
            return "TERM(" + " ++ ".join(v.parts) + ")"
        if v.kind == "I":
            return "I"
        if v.kind == "N":
            return "N"
        if v.kind == "gst":
            if getattr(v, "ref", None):
                return v.ref
            return f"GST({self.elem_key(v.expr)}, {self.elem_key(v.factor)})"
        if v.kind == "elem":
            return v.name
        raise AnalysisError(f"algebra: value of kind {v.kind} used as a model element")

    def gens_of(self, v, binders=()):
        """generators contributed when v is put into a Model / added to one"""
        if v.kind in ("term", "I", "N", "gst", "elem"):
            return [Gen(self.elem_key(v), binders)]
        if v.kind == "model":
            return [Gen(g.template, tuple(g.binders) + tuple(binders)) for g in v.gens]
        if v.kind == "modelop":
            return [Gen("e", (f"e in ALL({v.ref})",) + tuple(binders))]
        if v.kind == "list":
            out = []
            for it in v.items:
                out.extend(self.gens_of(it, binders))
            return out
        if v.kind == "listsym":
            return [Gen("e", (f"e in {v.sym}",) + tuple(binders))]
        if v.kind == "family":
            return [Gen(v.template, tuple(v.binders) + tuple(binders))]
        raise AnalysisError(f"algebra: cannot expand value of kind {v.kind} into terms")

    # ---- interpretation -------------------------------------------------------------------
    def summarise(self, clsname, method, rcls):
        """list of (conditions tuple, result Val) for clsname.method(self, other: rcls)"""
        cls = self.mod.classes.get(clsname)
        m = cls.methods.get(method) if cls else None
        if m is None:
            return None
        self.fn = m
        self.lcls, self.rcls = clsname, rcls
        env = {m.params[0]: self.operand("SELF", clsname)}
        if len(m.params) > 1:
            env[m.params[1]] = self.operand("OTHER", rcls)
        self.self_name = m.params[0]
        self.other_name = m.params[1] if len(m.params) > 1 else None
        self.normalised = False
        outs = []
        # an operator applied to the operands inside the overload (`self @ other`) has several outcomes of its own: the body is
        # re-interpreted once per combination of outcomes (choice points are keyed by the BinOp node)
        self._choices = {}
        self._arity = {}
        import itertools
        done = set()
        while True:
            combos = [dict(zip(self._arity, c)) for c in itertools.product(*[range(k) for k in self._arity.values()])] or [{}]
            todo = [c for c in combos if tuple(sorted(c.items())) not in done]
            if not todo:
                break
            for c in todo:
                done.add(tuple(sorted(c.items())))
                self._choices = c
                for conds, status, val in self._block(strip_docstring(m.node.body), env, ()):
                    if status == "return":
                        outs.append((conds, val))
                    elif status == "raise":
                        outs.append((conds, Val("raise", what=val)))
                    elif status == "fall":
                        outs.append((conds, Val("none")))
            if len(done) > 64:
                raise AnalysisError(f"algebra: too many nested operator outcomes in {m.qual}")
        uniq, seen = [], set()
        for conds, val in outs:
            try:
                k = (conds, self.normal(val))
            except AnalysisError:
                k = (conds, id(val))
            if k not in seen:
                seen.add(k)
                uniq.append((conds, val))
        return uniq

    def _block(self, stmts, env, conds):
        states = [(env, conds)]
        finals = []
        for s in stmts:
            nxt = []
            for e, c in states:
                for c2, status, payload in self._stmt(s, e, c):
                    if status == "next":
                        nxt.append((payload, c2))
                    else:
                        finals.append((c2, status, payload))
            states = nxt
            if not states:
                break
        return finals + [(c, "fall", e) for e, c in states]

    def _stmt(self, s, env, conds):
        self._conds = conds
        self._extra = []
        try:
            out = self._stmt0(s, env, conds)
        except _Infeasible:
            return []
        except _Raised as e:
            return [(conds + tuple(x for x in self._extra if x not in conds), "raise", e.what)]
        if not self._extra or isinstance(s, (ast.If, ast.For)):
            return out
        extra = tuple(self._extra)
        return [(c + tuple(x for x in extra if x not in c), st, pl) for c, st, pl in out]

    def _stmt0(self, s, env, conds):
        if isinstance(s, ast.Return):
            return [(conds, "return", self._expr(s.value, env))]
        if isinstance(s, ast.Raise):
            return [(conds, "raise", unparse(s.exc.func) if isinstance(s.exc, ast.Call) else "raise")]
        if isinstance(s, ast.Assign) and len(s.targets) == 1 and isinstance(s.targets[0], ast.Name):
            e2 = dict(env)
            if isinstance(s.value, (ast.Compare, ast.BoolOp)) or (isinstance(s.value, ast.UnaryOp) and isinstance(s.value.op, ast.Not)):
                # a test kept in a temporary: substituted where it is tested
                e2[s.targets[0].id] = Val("test", node=s.value)
            else:
                e2[s.targets[0].id] = self._expr(s.value, env)
            # a plain alias of an attribute of an operand (`others = other.common_terms`): conditions are matched on the source
            if isinstance(s.value, ast.Attribute):
                e2["__alias__" + s.targets[0].id] = Val("aliasnode", node=s.value)
            else:
                e2.pop("__alias__" + s.targets[0].id, None)
            return [(conds, "next", e2)]
        if isinstance(s, ast.If):
            out = []
            for truth, label in self._cond(s.test, env):
                c2 = conds + ((label,) if label else ())
                body = s.body if truth else s.orelse
                for c3, status, payload in self._block(body, env, c2):
                    if status == "fall":
                        out.append((c3, "next", payload))
                    else:
                        out.append((c3, status, payload))
            return out
        if isinstance(s, ast.Expr):
            v = s.value
            if isinstance(v, ast.Constant):
                return [(conds, "next", env)]
            # in-place normalisation of the intercept in Model.__or__ (decided by R5.5): remove/insert on self.common_terms
            txt = unparse(v)
            sn = self.self_name
            if txt in (f"{sn}.common_terms.remove(Intercept())", f"{sn}.common_terms.remove(NegatedIntercept())",
                       f"{sn}.common_terms.insert(0, Intercept())"):
                e2 = dict(env)
                e2["__normalised__"] = Val("flag")
                return [(conds, "next", e2)]
            if self.other_name and txt in (f"{sn}.common_terms.remove({self.other_name})", f"{sn}.group_terms.remove({self.other_name})"):
                e2 = dict(env)
                cur = env[sn]
                e2[sn] = model_of(self.gens_of(cur), diff=list(getattr(cur, "diff", [])) + self.gens_of(env[self.other_name]))
                return [(conds, "next", e2)]
            if dotted(getattr(v, "func", None)) == "_log.warning":
                return [(conds, "next", env)]
            self._expr(v, env)
            return [(conds, "next", env)]
        if isinstance(s, ast.For):
            return self._loop(s, env, conds)
        if isinstance(s, ast.Pass):
            return [(conds, "next", env)]
        raise AnalysisError(f"algebra: unmodelled statement `{unparse(s)[:60]}` in {self.fn.qual}")

    def _loop(self, s, env, conds):
        """the two mutation loops of Model.__add__ / Model.__sub__: `for t in other.<list>: self.add_term(t)` (union) and
        `for t in other.<list>: if t in self.<L>: self.<L>.remove(t)` (difference)"""
        tv = unparse(s.target)
        o = self.other_name
        sn = self.self_name
        src = self._expr(s.iter, env)
        if src.kind != "listsym" or not isinstance(s.target, ast.Name):
            raise AnalysisError(f"algebra: unmodelled loop source `{unparse(s.iter)}` in {self.fn.qual}")
        cur = env[sn]
        body = [unparse(b) for b in s.body]
        if body == [f"{sn}.add_term({tv})"]:
            e2 = dict(env)
            e2[sn] = model_of(self.gens_of(cur) + [Gen("e", (f"e in {src.sym}",))], diff=getattr(cur, "diff", []))
            return [(conds, "next", e2)]
        # a filtered union: `if C(t): continue` + add_term(t)   /   `if C(t): add_term(t)`: only some of the operand's terms arrive
        filt = None
        if len(s.body) == 2 and isinstance(s.body[0], ast.If) and not s.body[0].orelse and len(s.body[0].body) == 1 \
                and isinstance(s.body[0].body[0], ast.Continue) and unparse(s.body[1]) == f"{sn}.add_term({tv})":
            filt = "not (" + unparse(s.body[0].test) + ")"
        elif len(s.body) == 1 and isinstance(s.body[0], ast.If) and not s.body[0].orelse and [unparse(x) for x in s.body[0].body] == [f"{sn}.add_term({tv})"]:
            filt = unparse(s.body[0].test)
        if filt is not None:
            e2 = dict(env)
            e2[sn] = model_of(self.gens_of(cur) + [Gen("e", (f"e in {src.sym}", "where " + filt.replace(tv, "e")))], diff=getattr(cur, "diff", []))
            return [(conds, "next", e2)]
        removed = []
        for b in s.body:
            ok = False
            if isinstance(b, ast.If) and not b.orelse and len(b.body) == 1:
                for lst in ("common_terms", "group_terms"):
                    if unparse(b.test) == f"{tv} in {sn}.{lst}" and unparse(b.body[0]) == f"{sn}.{lst}.remove({tv})":
                        removed.append(lst)
                        ok = True
            if not ok:
                raise AnalysisError(f"algebra: unmodelled loop body `{unparse(b)[:60]}` in {self.fn.qual}")
        if removed:
            e2 = dict(env)
            where = "" if sorted(removed) == ["common_terms", "group_terms"] else f", only from {'+'.join(sorted(removed))}"
            e2[sn] = model_of(self.gens_of(cur), diff=list(getattr(cur, "diff", [])) + [Gen("e", (f"e in {src.sym}{where}",))])
            return [(conds, "next", e2)]
        raise AnalysisError(f"algebra: unmodelled loop `for {tv} in {unparse(s.iter)}` in {self.fn.qual}")

    # ---- conditions -----------------------------------------------------------------------
    def _cond(self, t, env):
        tests = {k: v.node for k, v in env.items() if isinstance(v, Val) and v.kind == "test"}
        tests.update({k[len("__alias__"):]: v.node for k, v in env.items() if k.startswith("__alias__") and isinstance(v, Val)})
        if tests and any(isinstance(n, ast.Name) and n.id in tests for n in ast.walk(t)):
            # first as written; if that spelling is not known, with temporaries / aliases replaced by what they stand for
            try:
                return self._cond0(t, env)
            except AnalysisError:
                pass
            import copy as _copy

            class Sub(ast.NodeTransformer):
                def visit_Name(self, n):
                    return _copy.deepcopy(tests[n.id]) if isinstance(n.ctx, ast.Load) and n.id in tests else n

            for _ in range(4):
                if not any(isinstance(n, ast.Name) and n.id in tests for n in ast.walk(t)):
                    break
                t = ast.fix_missing_locations(Sub().visit(_copy.deepcopy(t)))
        return self._cond0(t, env)

    def _cond0(self, t, env):
        s = unparse(t)
        sn, on = self.self_name, self.other_name
        if isinstance(t, ast.UnaryOp) and isinstance(t.op, ast.Not) and isinstance(t.operand, (ast.BoolOp, ast.Compare, ast.Call)):
            # not C: the outcomes of C with the truth value flipped (labels describe the case, so they stay)
            try:
                return [(not truth, label) for truth, label in self._cond0(t.operand, env)]
            except AnalysisError:
                pass
        if isinstance(t, ast.Call) and dotted(t.func) == "isinstance" and isinstance(t.args[0], ast.Name) and t.args[0].id in env:
            v = env[t.args[0].id]
            cls = getattr(v, "cls", None)
            spec = t.args[1]
            names = []
            for e in (spec.elts if isinstance(spec, ast.Tuple) else [spec]):
                if isinstance(e, ast.Name):
                    names.append(e.id)
                elif isinstance(e, ast.Call) and dotted(e.func) == "type" and unparse(e.args[0]) == sn:
                    names.append(self.lcls)
                else:
                    raise AnalysisError(f"algebra: unmodelled isinstance spec `{unparse(spec)}`")
            if cls is None:
                raise AnalysisError(f"algebra: isinstance on a value without a class: `{s}`")
            return [(cls in names, None)]
        if s == f"{sn} == {on}":
            if self.lcls != self.rcls:
                return [(False, None)]
            return [(True, "SELF == OTHER"), (False, "SELF != OTHER")]
        if s == f"{sn}.components == {on}.components":
            return [(True, "SELF == OTHER"), (False, "SELF != OTHER")]
        if s == f"{sn} in {on}.terms":
            return [(True, "SELF in OTHER"), (False, "SELF not in OTHER")]
        if s in (f"{on} in {sn}.common_terms", f"{on} in {sn}.group_terms"):
            return [(True, "OTHER in SELF"), (False, "OTHER not in SELF")]
        if s == f"any((isinstance(term, type({sn})) for term in {on}.common_terms))":
            return [(True, "I in OTHER"), (False, "I not in OTHER")]
        if s.startswith(f"len({on}.components) == 1 and isinstance({on}.components[0].name, (int, float))"):
            return [(True, "OTHER is a number"), (False, None)]
        if s == f"len({on}.common_terms) == 1":
            return [(True, "OTHER has one term"), (False, None)]
        if s == f"len({sn}.common_terms) == 1":
            return [(True, "SELF has one term"), (False, None)]
        if s == "len(components) == 1 and isinstance(components, (int, float))":
            return [(False, None)]
        if "Intercept() in" in s or "Intercept() not in" in s:
            # intercept normalisation chain of Model.__or__: decided separately (R5.5)
            return [(True, None)]
        if s == f"isinstance({on}, Term) and len({on}.components) == 1":
            return [(self.rcls == "Term", "OTHER is a single component" if self.rcls == "Term" else None)]
        if s == "isinstance(value, int) and value >= 1":
            return [(True, "n is a positive integer"), (False, "n is not a positive integer")]
        if s == "len(c) == 1 and isinstance(c[0].name, int) and (c[0].name >= 1)":
            return [(True, "n is a positive integer"), (False, "n is not a positive integer")]
        raise AnalysisError(f"algebra: unmodelled condition `{s}` in {self.fn.qual}")

    # ---- expressions ----------------------------------------------------------------------
    def _components(self, node, env):
        """component-sequence description(s) of an expression used as *args of Term(...)"""
        n = node
        if isinstance(n, ast.Call) and dotted(n.func) in ("deepcopy", "copy.deepcopy") and len(n.args) == 1:
            n = n.args[0]
        if isinstance(n, ast.Attribute) and n.attr == "components":
            base = self._expr(n.value, env)
            if base.kind == "term" and getattr(base, "ref", None):
                return [f"comps({base.ref})"]
            if base.kind == "elem":
                return [f"comps({base.name})"]
            raise AnalysisError(f"algebra: components of a {base.kind} in {self.fn.qual}")
        if isinstance(n, ast.Attribute) and n.attr == "common_components":
            base = self._expr(n.value, env)
            if base.kind == "modelop":
                return [f"allcomps({base.ref})"]
        if isinstance(n, ast.BinOp) and isinstance(n.op, ast.Add):
            return self._components(n.left, env) + self._components(n.right, env)
        if isinstance(n, (ast.ListComp, ast.GeneratorExp)):
            # [deepcopy(comp) for term in terms for comp in term.components]
            gens = n.generators
            elt = n.elt
            if isinstance(elt, ast.Call) and dotted(elt.func) in ("deepcopy", "copy.deepcopy"):
                elt = elt.args[0]
            if len(gens) == 2 and isinstance(elt, ast.Name) and unparse(gens[1].iter) == f"{unparse(gens[0].target)}.components" \
                    and unparse(gens[1].target) == elt.id and not gens[0].ifs and not gens[1].ifs:
                src = self._expr(gens[0].iter, env)
                if src.kind == "elem":
                    return [f"comps(each of {src.name})"]
        if isinstance(n, ast.Name):
            v = env.get(n.id)
            if v is not None and v.kind == "compelem":
                return [n_ := v.name][0:1]
            if v is not None and v.kind == "complist":
                return list(v.parts)
        raise AnalysisError(f"algebra: unmodelled component source `{unparse(node)}` in {self.fn.qual}")

    def _expr(self, n, env):
        if n is None:
            return Val("none")
        if isinstance(n, ast.Name):
            if n.id == "NotImplemented":
                return Val("notimpl")
            if n.id in env:
                return env[n.id]
            if any(isinstance(x, ast.Name) and x.id == n.id and isinstance(x.ctx, ast.Store) for x in ast.walk(self.fn.node)):
                # a local of the function that no statement on this path has bound: reading it raises
                raise _Raised("UnboundLocalError")
            raise AnalysisError(f"algebra: unbound name `{n.id}` in {self.fn.qual}")
        if isinstance(n, ast.Constant):
            return Val("const", value=n.value)
        if isinstance(n, ast.Call):
            d = dotted(n.func)
            if d in ("deepcopy", "copy.deepcopy") and len(n.args) == 1:
                return self._expr(n.args[0], env)
            # list(X) / tuple(X) / dict.fromkeys(X) (order-preserving removal of repeated elements): the same collection as a set of terms
            if d in ("list", "tuple", "dict.fromkeys") and len(n.args) == 1 and not n.keywords:
                inner = self._expr(n.args[0], env)
                if inner.kind in ("listsym", "complist", "list", "family", "combos"):
                    return inner
            if d == "Intercept":
                return Val("I", cls="Intercept")
            if d == "NegatedIntercept":
                return Val("N", cls="NegatedIntercept")
            if d == "Term":
                parts = []
                for a in n.args:
                    if isinstance(a, ast.Starred):
                        parts += self._components(a.value, env)
                    else:
                        v = self._components(a, env)
                        parts += v
                return Val("term", parts=parts, cls="Term")
            if d == "GroupSpecificTerm" and len(n.args) == 2:
                return Val("gst", expr=self._as_elem(self._expr(n.args[0], env)), factor=self._as_elem(self._expr(n.args[1], env)), cls="GroupSpecificTerm")
            if d == "Model":
                gens = []
                for a in n.args:
                    if isinstance(a, ast.Starred):
                        gens += self.gens_of(self._expr(a.value, env))
                    else:
                        gens += self.gens_of(self._expr(a, env))
                resp = None
                for k in n.keywords:
                    if k.arg == "response":
                        resp = self._expr(k.value, env)
                return model_of(gens, response="SELF" if resp is not None and resp.kind == "response" else None)
            if d in ("product", "itertools.product") and len(n.args) == 2:
                return Val("product", factors=[self._expr(a, env) for a in n.args])
            if d in ("combinations", "itertools.combinations"):
                raise AnalysisError("algebra: combinations outside the power idiom")
            if d == "list" and len(n.args) == 1:
                return self._expr(n.args[0], env)
            if isinstance(n.func, ast.Attribute):
                base = self._expr(n.func.value, env) if not isinstance(n.func.value, ast.Call) else None
                if n.func.attr == "add_term" and base is not None:
                    arg = self._expr(n.args[0], env)
                    return model_of(self.gens_of(base) + self.gens_of(arg))
                if n.func.attr == "add_response" and base is not None:
                    return model_of(self.gens_of(base), response="SELF")
            if isinstance(n.func, ast.Name) and n.func.id in self.mod.functions and not n.keywords:
                return self._inline(self.mod.functions[n.func.id], [self._expr(a, env) for a in n.args], env)
            raise AnalysisError(f"algebra: unmodelled call `{unparse(n)[:70]}` in {self.fn.qual}")
        if isinstance(n, ast.Attribute):
            base = self._expr(n.value, env)
            if base.kind == "modelop" and n.attr in ("common_terms", "group_terms", "terms"):
                sym = {"common_terms": "CT", "group_terms": "GT", "terms": "ALL"}[n.attr]
                norm = "*" if "__normalised__" in env and base.ref == "SELF" and n.attr == "common_terms" else ""
                return Val("listsym", sym=f"{sym}{norm}({base.ref})")
            if base.kind == "modelop" and n.attr == "common_components":
                return Val("complist", parts=[f"allcomps({base.ref})"], sym=f"CC({base.ref})")
            if base.kind in ("term", "elem") and n.attr == "components":
                return Val("complist", parts=self._components(n, env))
            if n.attr == "name" and base.kind == "compelem0":
                return Val("const", value="n")
            raise AnalysisError(f"algebra: unmodelled attribute `{unparse(n)}` in {self.fn.qual}")
        if isinstance(n, ast.List):
            return Val("list", items=[self._expr(e, env) for e in n.elts])
        if isinstance(n, ast.Subscript):
            base = self._expr(n.value, env)
            if base.kind == "elem" and getattr(base, "pair", None) and isinstance(n.slice, ast.Constant):
                return base.pair[n.slice.value]
            if base.kind == "listsym" and isinstance(n.slice, ast.Constant) and n.slice.value == 0:
                return Val("elem", name=f"first({base.sym})", cls="?")
            if base.kind == "complist" and isinstance(n.slice, ast.Constant) and n.slice.value == 0:
                return Val("compelem0")
            raise AnalysisError(f"algebra: unmodelled subscript `{unparse(n)}` in {self.fn.qual}")
        if isinstance(n, ast.BinOp):
            l = self._expr(n.left, env)
            r = self._expr(n.right, env)
            if isinstance(n.op, ast.Add):
                if l.kind in ("list", "listsym") or r.kind in ("list", "listsym"):
                    return Val("list", items=[l, r])
                # set union (decided for Model + X by the summaries of Model.__add__ / add_term)
                if r.kind == "N":
                    return model_of(self.gens_of(l), diff=[Gen("I")])
                if (l.kind == "I" and r.kind == "N") or (l.kind == "N" and r.kind == "I"):
                    return model_of([])
                return model_of(self.gens_of(l) + self.gens_of(r), response=getattr(l, "response", None) or getattr(r, "response", None),
                                diff=list(getattr(l, "diff", [])) + list(getattr(r, "diff", [])))
            if isinstance(n.op, ast.Sub):
                return model_of(self.gens_of(l), diff=self.gens_of(r))
            if isinstance(n.op, ast.BitOr):
                return Val("delegate", left=l, right=r, op="|")
            return self._nested_operator(n, l, r)
        if isinstance(n, (ast.ListComp, ast.GeneratorExp)):
            try:
                return self._comprehension(n, env)
            except _EmptySource:
                return Val("list", items=[])
        raise AnalysisError(f"algebra: unmodelled expression `{unparse(n)[:70]}` in {self.fn.qual}")

    NESTED = {ast.MatMult: "__matmul__", ast.Mult: "__mul__", ast.Div: "__truediv__", ast.Pow: "__pow__"}
    CONTRA = [("SELF == OTHER", "SELF != OTHER"), ("SELF in OTHER", "SELF not in OTHER"), ("OTHER in SELF", "OTHER not in SELF"),
              ("I in OTHER", "I not in OTHER")]

    def _nested_operator(self, n, l, r):
        """`self <op> other` inside an overload: the outcomes of that overload on the same operands (summarised recursively);
        the interpretation of the enclosing body is repeated for each outcome that is consistent with the path conditions"""
        d = self.NESTED.get(type(n.op))
        if d is None or getattr(l, "ref", None) != "SELF" or getattr(r, "ref", None) != "OTHER" \
                or getattr(l, "cls", None) != self.lcls or getattr(r, "cls", None) != self.rcls:
            raise AnalysisError(f"algebra: unmodelled operator in `{unparse(n)}`")
        if (self.fn.name == d) or getattr(self, "_depth", 0) >= 3:
            raise AnalysisError(f"algebra: recursive operator in `{unparse(n)}`")
        sub = Summariser(self.prog)
        sub._depth = getattr(self, "_depth", 0) + 1
        alts = sub.summarise(self.lcls, d, self.rcls)
        if not alts:
            raise AnalysisError(f"algebra: {self.lcls} has no {d} (`{unparse(n)}`)")
        have = set(self._conds) | set(self._extra)

        def feasible(c):
            return not any((a in c and b in have) or (b in c and a in have) for a, b in self.CONTRA)

        alts = [(c, v) for c, v in alts if feasible(c)]
        if not alts:
            raise _Infeasible()
        k = id(n)
        if len(alts) > 1 and self._arity.get(k) != len(alts):
            self._arity[k] = len(alts)
        c, v = alts[self._choices.get(k, 0) % len(alts)]
        for x in c:
            if x not in have:
                self._extra.append(x)
        if v.kind == "raise":
            raise _Raised(v.what)
        return v

    def _inline(self, helper, args, env):
        """a module-level helper of terms.py with a single `return <expr>` body is summarised in place"""
        body = strip_docstring(helper.node.body)
        if len(body) != 1 or not isinstance(body[0], ast.Return) or len(helper.params) != len(args):
            raise AnalysisError(f"algebra: helper {helper.qual} is not a single-return function")
        e2 = {k: v for k, v in env.items() if k.startswith("__")}
        for p_, a in zip(helper.params, args):
            e2[p_] = a
        return self._expr(body[0].value, e2)

    def _as_elem(self, v):
        if v.kind in ("term", "I", "N", "gst", "elem"):
            return v
        raise AnalysisError(f"algebra: {v.kind} used as a term")

    def _source_binder(self, v, var):
        """binder string for iterating over list value v with variable var; returns (binder or None, elem Val)"""
        if v.kind == "list" and not v.items:
            raise _EmptySource()
        if v.kind == "listsym":
            return f"{var} in {v.sym}", Val("elem", name=var, cls="?")
        if v.kind == "list" and len(v.items) == 1 and v.items[0].kind in ("term", "I", "N", "gst", "elem"):
            return None, v.items[0]
        if v.kind == "complist" and getattr(v, "sym", None):
            return f"{var} in {v.sym}", Val("compelem", name=var)
        raise AnalysisError(f"algebra: unmodelled iteration source of kind {v.kind} in {self.fn.qual}")

    def _comprehension(self, n, env):
        gens = n.generators
        if len(gens) == 1 and isinstance(gens[0].target, ast.Tuple) and all(isinstance(e, ast.Name) for e in gens[0].target.elts):
            src = self._expr(gens[0].iter, env)
            if src.kind != "product" or len(src.factors) != len(gens[0].target.elts):
                raise AnalysisError(f"algebra: tuple target over a non-product in `{unparse(n)[:70]}`")
            binders, e2, ren = [], dict(env), {}
            for i, (fac, tgt) in enumerate(zip(src.factors, gens[0].target.elts)):
                b, ev = self._source_binder(fac, f"p{i}")
                if b:
                    binders.append(b)
                e2[tgt.id] = ev
                ren[tgt.id] = self.elem_key(ev) if ev.kind != "elem" else ev.name
            for cond in gens[0].ifs:
                txt = unparse(cond)
                for k, v in ren.items():
                    txt = txt.replace(k, v)
                binders.append(f"where {txt}")
            elt = self._expr(n.elt, e2)
            return Val("family", template=self.elem_key(elt), binders=binders)
        if len(gens) == 1 and gens[0].ifs and isinstance(gens[0].target, ast.Name):
            src = self._expr(gens[0].iter, env)
            tv = gens[0].target.id
            if src.kind == "product":
                binders, pair = [], []
                for i, fac in enumerate(src.factors):
                    b, ev = self._source_binder(fac, f"p{i}")
                    if b:
                        binders.append(b)
                    pair.append(ev)
                e2 = dict(env)
                e2[tv] = Val("elem", name=tv, pair=pair)
                for cond in gens[0].ifs:
                    binders.append("where " + unparse(cond).replace(tv, "p"))
                elt = self._expr(n.elt, e2)
                return Val("family", template=self.elem_key(elt), binders=binders)
            b, ev = self._source_binder(src, "c" if src.kind == "complist" else "e")
            e2 = dict(env)
            e2[tv] = ev
            binders = ([b] if b else []) + ["where " + unparse(cond).replace(tv, ev.name if ev.kind in ("elem", "compelem") else tv) for cond in gens[0].ifs]
            elt = self._expr(n.elt, e2)
            return Val("family", template=self.elem_key(elt), binders=binders)
        if len(gens) == 1 and not gens[0].ifs and isinstance(gens[0].target, ast.Name):
            src = self._expr(gens[0].iter, env)
            tv = gens[0].target.id
            if src.kind == "product":
                binders = []
                pair = []
                for i, fac in enumerate(src.factors):
                    b, ev = self._source_binder(fac, f"p{i}")
                    if b:
                        binders.append(b)
                    pair.append(ev)
                e2 = dict(env)
                e2[tv] = Val("elem", name=tv, pair=pair)
                elt = self._expr(n.elt, e2)
                return Val("family", template=self.elem_key(elt), binders=binders)
            if src.kind == "combos" and getattr(src, "of", "terms") == "components":
                # combinations of COMPONENTS (not of terms): each combination is itself a component sequence
                e2 = dict(env)
                e2[tv] = Val("complist", parts=["each of combo"], sym=None)
                elt = self._expr(n.elt, e2)
                return Val("family", template=self.elem_key(elt), binders=[src.binder])
            if src.kind == "combos":
                e2 = dict(env)
                e2[tv] = Val("elem", name="combo", cls="combo")
                elt = self._expr(n.elt, e2)
                return Val("family", template=self.elem_key(elt), binders=[src.binder])
            b, ev = self._source_binder(src, "c" if src.kind == "complist" else "e")
            e2 = dict(env)
            e2[tv] = ev
            elt = self._expr(n.elt, e2)
            return Val("family", template=self.elem_key(elt), binders=[b] if b else [])
        # [f(a, b) for a in A for b in B]  with independent sources: the same family as iterating product(A, B)
        if len(gens) >= 2 and all(isinstance(g.target, ast.Name) for g in gens) and \
                not any(isinstance(x, ast.Name) and x.id in {h.target.id for h in gens[:i]} for i, g in enumerate(gens) for x in ast.walk(g.iter)) \
                and not any(isinstance(g.iter, ast.Call) and dotted(g.iter.func) in ("combinations", "itertools.combinations", "range") for g in gens):
            binders, e2, ren = [], dict(env), {}
            for i, g in enumerate(gens):
                src = self._expr(g.iter, env)
                b, ev = self._source_binder(src, f"p{i}")
                if b:
                    binders.append(b)
                e2[g.target.id] = ev
                ren[g.target.id] = self.elem_key(ev) if ev.kind != "elem" else ev.name
            for g in gens:
                for cond in g.ifs:
                    txt = unparse(cond)
                    for k, v in ren.items():
                        txt = txt.replace(k, v)
                    binders.append(f"where {txt}")
            elt = self._expr(n.elt, e2)
            return Val("family", template=self.elem_key(elt), binders=binders)
        # [list(p) for i in range(2, value + 1) for p in combinations(self.common_terms, i)]
        if len(gens) == 2 and isinstance(gens[1].iter, ast.Call) and dotted(gens[1].iter.func) in ("combinations", "itertools.combinations"):
            rng_node = gens[0].iter
            if not (isinstance(rng_node, ast.Call) and dotted(rng_node.func) == "range"):
                raise AnalysisError(f"algebra: unmodelled size range `{unparse(rng_node)}`")
            parts = []
            for a in rng_node.args:
                t = unparse(a)
                for nm in sorted({x.id for x in ast.walk(a) if isinstance(x, ast.Name)}):
                    v = env.get(nm)
                    if v is None or v.kind != "const" or v.value != "n":
                        raise AnalysisError(f"algebra: size range uses `{nm}` which is not the power operand")
                    t = t.replace(nm, "n")
                parts.append(t)
            rng = "range(" + ", ".join(parts) + ")"
            src = self._expr(gens[1].iter.args[0], env)
            size = unparse(gens[1].iter.args[1])
            if size != unparse(gens[0].target) or not isinstance(gens[1].target, ast.Name):
                raise AnalysisError(f"algebra: unmodelled combinations idiom `{unparse(n)}`")
            if src.kind == "complist" and getattr(src, "sym", None):
                combos = Val("combos", binder=f"combo in combinations({src.sym}, k), k in {rng}", of="components")
            elif src.kind == "listsym":
                combos = Val("combos", binder=f"combo in combinations({src.sym}, k), k in {rng}")
            else:
                raise AnalysisError(f"algebra: unmodelled combinations idiom `{unparse(n)}`")
            if unparse(n.elt) in (f"list({unparse(gens[1].target)})", unparse(gens[1].target)):
                return combos
            # the element is computed from the combination right away: [Term(*deepcopy(p)) for k in ... for p in combinations(...)]
            e2 = dict(env)
            if getattr(combos, "of", "terms") == "components":
                e2[gens[1].target.id] = Val("complist", parts=["each of combo"], sym=None)
            else:
                e2[gens[1].target.id] = Val("elem", name="combo", cls="combo")
            elt = self._expr(n.elt, e2)
            return Val("family", template=self.elem_key(elt), binders=[combos.binder])
        raise AnalysisError(f"algebra: unmodelled comprehension `{unparse(n)[:80]}` in {self.fn.qual}")

    # ---- normal form ------------------------------------------------------------------------
    def normal(self, v):
        """canonical, order-insensitive description of a result value"""
        if v.kind == "model":
            gens = sorted({g.key() for g in v.gens})
            d = sorted({g.key() for g in v.diff})
            s = "{" + "; ".join(gens) + "}"
            if d:
                s += " minus {" + "; ".join(d) + "}"
            if v.response:
                s += " with response"
            return s
        if v.kind in ("term", "I", "N", "gst", "elem"):
            return self.elem_key(v)
        if v.kind == "modelop":
            return v.ref
        if v.kind == "notimpl":
            return "NotImplemented"
        if v.kind == "raise":
            return f"raise {v.what}"
        if v.kind == "none":
            return "None"
        if v.kind == "delegate":
            return f"({self.normal(v.left) if v.left.kind != 'elem' else v.left.name}) | ({self.normal(v.right)})"
        if v.kind == "family":
            return "{" + Gen(v.template, v.binders).key() + "}"
        raise AnalysisError(f"algebra: cannot normalise a {v.kind}")

"""Operator-dispatch extractor for the term algebra (formulae/terms/terms.py).

Type-level abstract interpretation of every operator overload over the closed
universe of six classes.  For a triple (operator, left class, right class) the
overload body is walked with `self` and `other` bound to exact classes:
`isinstance` tests are decided exactly (the classes do not inherit from each
other), `self == other` is False for different classes (rule R2.1d), every other
test is explored both ways.  Attribute reads on `self`/`other` are checked against
the attribute set of the class.  Outcome of a triple:

  supported   every path returns a term-algebra object or raises a deliberate error
  unsupported some path returns NotImplemented (no reflected methods exist),
              falls off the end (None), or reads a missing attribute
"""
import ast

from .core import AnalysisError, dotted, unparse, strip_docstring

UNIVERSE = ["Intercept", "NegatedIntercept", "Term", "GroupSpecificTerm", "Response", "Model"]
OPS = {
    "+": "__add__",
    "-": "__sub__",
    "*": "__mul__",
    ":": "__matmul__",
    "/": "__truediv__",
    "**": "__pow__",
    "|": "__or__",
}
# element classes of the list-valued fields (what the algebra itself can put there)
ELEMS = {
    ("Model", "common_terms"): {"Intercept", "NegatedIntercept", "Term"},
    ("Model", "group_terms"): {"GroupSpecificTerm"},
    ("Model", "terms"): {"Intercept", "NegatedIntercept", "Term", "GroupSpecificTerm"},
}
MAXDEPTH = 6


class Outcome:
    def __init__(self):
        self.results = set()  # classes returned
        self.rejects = []  # deliberate raises
        self.problems = []  # (kind, text, line)

    @property
    def supported(self):
        return not self.problems

    def merge(self, o):
        self.results |= o.results
        self.rejects += o.rejects
        self.problems += o.problems


class Dispatch:
    def __init__(self, prog):
        self.prog = prog
        self.mod = prog.mod("terms.terms")
        self.cls = {}
        for n in UNIVERSE:
            c = self.mod.classes.get(n)
            if c is None:
                raise AnalysisError(f"term-algebra class {n} not found in terms.py")
            self.cls[n] = c
        self.attrs = {n: self._attrs(c) for n, c in self.cls.items()}
        self.memo = {}
        self.active = set()

    def _attrs(self, c):
        out = set(c.methods) | set(c.class_attrs) | set(c.setters)
        for m in c.methods.values():
            for n in ast.walk(m.node):
                if (
                    isinstance(n, ast.Attribute)
                    and isinstance(n.ctx, ast.Store)
                    and isinstance(n.value, ast.Name)
                    and n.value.id == "self"
                ):
                    out.add(n.attr)
        out |= {"__class__", "__dict__", "__name__"}
        return out

    # ---- public ------------------------------------------------------------------------
    def binop(self, method, L, R, depth=0):
        """Outcome of `L() <op> R()` through `L.<method>`."""
        key = (method, L, R)
        if key in self.memo:
            return self.memo[key]
        o = Outcome()
        c = self.cls.get(L)
        m = c.methods.get(method) if c else None
        if m is None:
            o.problems.append(("no-method", f"{L} defines no {method} and {R} has no reflected method: TypeError", c.node.lineno if c else 0))
            self.memo[key] = o
            return o
        if key in self.active or depth > MAXDEPTH:
            o.results.add("Model")
            return o
        self.active.add(key)
        try:
            params = m.params
            env = {params[0]: {L}}
            if len(params) > 1:
                env[params[1]] = {R}
            o = self._function(m, env, depth)
        finally:
            self.active.discard(key)
        self.memo[key] = o
        return o

    def method(self, clsname, mname, argtypes, depth):
        c = self.cls.get(clsname)
        m = c.methods.get(mname) if c else None
        o = Outcome()
        if m is None:
            o.results.add("?")
            return o
        key = ("call", clsname, mname, tuple(tuple(sorted(a)) for a in argtypes))
        if key in self.memo:
            return self.memo[key]
        if key in self.active or depth > MAXDEPTH:
            o.results.add("?")
            return o
        self.active.add(key)
        try:
            env = {m.params[0]: {clsname}}
            # explore each exact combination of argument classes separately
            combos = [[]]
            for a in argtypes:
                combos = [c_ + [x] for c_ in combos for x in (sorted(a) or ["?"])]
            for combo in combos[:36]:
                e = dict(env)
                for p, a in zip(m.params[1:], combo):
                    e[p] = {a}
                o.merge(self._function(m, e, depth))
        finally:
            self.active.discard(key)
        self.memo[key] = o
        return o

    # ---- abstract interpretation ---------------------------------------------------------
    def _function(self, m, env, depth):
        o = Outcome()
        self._fn = m
        for status, payload in self._block(strip_docstring(m.node.body), env, depth, o):
            if status == "fall":
                o.problems.append(("implicit-none", f"{m.qual}: a path falls off the end and returns None", m.node.lineno))
        return o

    def _block(self, stmts, env, depth, o):
        """generator of terminal statuses; 'fall' = reached the end of the block normally.
        Returns list of (status, env) where status in fall/done."""
        states = [env]
        finals = []
        for s in stmts:
            nxt = []
            for e in states:
                for status, e2 in self._stmt(s, e, depth, o):
                    if status == "fall":
                        nxt.append(e2)
                    else:
                        finals.append((status, e2))
            states = nxt
            if not states:
                break
        return finals + [("fall", e) for e in states]

    def _stmt(self, s, env, depth, o):
        fn = self._fn
        if isinstance(s, ast.Return):
            self._attr_check(s.value, env, o)
            tys = self._type(s.value, env, depth, o)
            for t in tys:
                if t == "NotImplemented":
                    o.problems.append(("not-implemented", f"{fn.qual}: returns NotImplemented (no reflected method exists: TypeError)", s.lineno))
                elif t == "None":
                    o.problems.append(("implicit-none", f"{fn.qual}: returns None", s.lineno))
                else:
                    o.results.add(t)
            return [("done", env)]
        if isinstance(s, ast.Raise):
            o.rejects.append((unparse(s.exc)[:80] if s.exc else "raise", s.lineno))
            return [("done", env)]
        if isinstance(s, ast.If):
            self._attr_check(s.test, env, o)
            out = []
            for truth, e2 in self._cond(s.test, env):
                body = s.body if truth else s.orelse
                out.extend(self._block(body, e2, depth, o))
            return out
        if isinstance(s, ast.Assign):
            self._attr_check(s.value, env, o)
            tys = self._type(s.value, env, depth, o)
            e2 = dict(env)
            for t in s.targets:
                if isinstance(t, ast.Name):
                    e2[t.id] = tys
                else:
                    self._attr_check(t, env, o)
            return [("fall", e2)]
        if isinstance(s, (ast.Expr, ast.AugAssign)):
            v = s.value
            self._attr_check(v, env, o)
            self._type(v, env, depth, o)
            return [("fall", env)]
        if isinstance(s, ast.For):
            self._attr_check(s.iter, env, o)
            e2 = dict(env)
            it = self._type(s.iter, env, depth, o)
            if isinstance(s.target, ast.Name):
                e2[s.target.id] = self._elems(s.iter, env) or {"?"}
            # zero iterations
            out = [("fall", env)]
            for status, e3 in self._block(s.body, e2, depth, o):
                if status == "fall":
                    out.append(("fall", env))
                else:
                    out.append((status, e3))
            return out
        if isinstance(s, (ast.Pass,)):
            return [("fall", env)]
        raise AnalysisError(f"dispatch extractor: unmodelled statement {type(s).__name__} in {fn.qual} line {s.lineno}")

    def _exact(self, env, name):
        t = env.get(name)
        if t and len(t) == 1:
            return next(iter(t))
        return None

    def _cond(self, test, env):
        v = self._truth(test, env)
        if v is None:
            return [(True, self._refine(test, env, True)), (False, self._refine(test, env, False))]
        return [(v, env)]

    def _refine(self, test, env, truth):
        return env

    def _class_spec(self, node, env):
        elts = node.elts if isinstance(node, ast.Tuple) else [node]
        out = set()
        for e in elts:
            if isinstance(e, ast.Name):
                if e.id in self.cls:
                    out.add(e.id)
                elif e.id in ("int", "float", "str", "bool", "dict", "list", "tuple"):
                    out.add("py:" + e.id)
                elif e.id == "ACCEPTED_TERMS":
                    vals = self.mod.globals.get("ACCEPTED_TERMS")
                    if vals and isinstance(vals[0], ast.Tuple):
                        out |= {x.id for x in vals[0].elts if isinstance(x, ast.Name)}
                    else:
                        return None
                else:
                    return None
            elif isinstance(e, ast.Call) and dotted(e.func) == "type" and len(e.args) == 1 and isinstance(e.args[0], ast.Name):
                t = self._exact(env, e.args[0].id)
                if t is None:
                    return None
                out.add(t)
            elif isinstance(e, ast.Attribute) and e.attr == "__class__" and isinstance(e.value, ast.Name):
                t = self._exact(env, e.value.id)
                if t is None:
                    return None
                out.add(t)
            else:
                return None
        return out

    def _truth(self, t, env):
        if isinstance(t, ast.UnaryOp) and isinstance(t.op, ast.Not):
            v = self._truth(t.operand, env)
            return None if v is None else (not v)
        if isinstance(t, ast.BoolOp):
            vals = [self._truth(v, env) for v in t.values]
            if isinstance(t.op, ast.And):
                if any(v is False for v in vals):
                    return False
                return True if all(v is True for v in vals) else None
            if any(v is True for v in vals):
                return True
            return False if all(v is False for v in vals) else None
        if isinstance(t, ast.Call) and dotted(t.func) == "isinstance" and len(t.args) == 2 and isinstance(t.args[0], ast.Name):
            x = self._exact(env, t.args[0].id)
            spec = self._class_spec(t.args[1], env)
            if x is None or spec is None or x == "?":
                return None
            return x in spec
        if isinstance(t, ast.Compare) and len(t.ops) == 1 and isinstance(t.ops[0], (ast.Eq, ast.NotEq)):
            if isinstance(t.left, ast.Name) and isinstance(t.comparators[0], ast.Name):
                a, b = self._exact(env, t.left.id), self._exact(env, t.comparators[0].id)
                if a and b and a != "?" and b != "?" and a != b and a in self.cls and b in self.cls:
                    return isinstance(t.ops[0], ast.NotEq)
            return None
        if isinstance(t, ast.Compare) and len(t.ops) == 1 and isinstance(t.ops[0], (ast.Is, ast.IsNot)) \
                and isinstance(t.comparators[0], ast.Constant) and t.comparators[0].value is None and isinstance(t.left, ast.Name):
            x = self._exact(env, t.left.id)
            if x in self.cls:
                return isinstance(t.ops[0], ast.IsNot)
            if x == "None":
                return isinstance(t.ops[0], ast.Is)
        return None

    def _attr_check(self, node, env, o):
        if node is None:
            return
        for n in ast.walk(node):
            if isinstance(n, ast.Attribute) and isinstance(n.value, ast.Name) and isinstance(n.ctx, ast.Load):
                t = self._exact(env, n.value.id)
                if t in self.cls and n.attr not in self.attrs[t]:
                    o.problems.append(
                        ("attribute", f"{self._fn.qual}: reads `{n.value.id}.{n.attr}` but {t} has no attribute `{n.attr}` (AttributeError)", n.lineno)
                    )
        # element attribute reads through comprehensions over typed list fields
        for n in ast.walk(node):
            if isinstance(n, (ast.ListComp, ast.GeneratorExp, ast.SetComp)):
                for g in n.generators:
                    self._comp_elem_check(n, g, env, o)

    def _comp_elem_check(self, comp, gen, env, o):
        """`[Term(*p[0].components, ...) for p in product(self.common_terms, other.common_terms)]`:
        report element classes that lack an attribute read in the element expression."""
        srcs = None
        it = gen.iter
        if isinstance(it, ast.Name) and it.id in env.get("__defs__", {}):
            it = env["__defs__"][it.id]
        if isinstance(it, ast.Call) and dotted(it.func) in ("product", "itertools.product"):
            srcs = [self._elems(a, env) for a in it.args]
        if srcs is None or not isinstance(gen.target, ast.Name):
            return
        var = gen.target.id
        for n in ast.walk(comp.elt):
            if (
                isinstance(n, ast.Attribute)
                and isinstance(n.value, ast.Subscript)
                and isinstance(n.value.value, ast.Name)
                and n.value.value.id == var
                and isinstance(n.value.slice, ast.Constant)
                and isinstance(n.value.slice.value, int)
                and n.value.slice.value < len(srcs)
            ):
                for t in sorted(srcs[n.value.slice.value] or ()):
                    if t in self.cls and n.attr not in self.attrs[t]:
                        o.rejects.append((f"element {t} of the operand has no `{n.attr}` (AttributeError; operand shape outside the documented algebra)", n.lineno))

    def _elems(self, node, env):
        """classes of the elements of a list-valued expression"""
        if isinstance(node, ast.Attribute) and isinstance(node.value, ast.Name):
            t = self._exact(env, node.value.id)
            if t and (t, node.attr) in ELEMS:
                return set(ELEMS[(t, node.attr)])
        if isinstance(node, ast.List):
            out = set()
            for e in node.elts:
                out |= {x for x in self._type(e, env, MAXDEPTH, Outcome()) if x in self.cls}
            return out
        if isinstance(node, ast.BinOp) and isinstance(node.op, ast.Add):
            return (self._elems(node.left, env) or set()) | (self._elems(node.right, env) or set())
        return set()

    def _type(self, n, env, depth, o):
        """abstract classes of the value of expression n"""
        if n is None:
            return {"None"}
        if isinstance(n, ast.Name):
            if n.id == "NotImplemented":
                return {"NotImplemented"}
            if n.id in env:
                return set(env[n.id])
            return {"?"}
        if isinstance(n, ast.Constant):
            return {"None"} if n.value is None else {"?"}
        if isinstance(n, ast.Call):
            fn = n.func
            if isinstance(fn, ast.Name) and fn.id in self.cls:
                # constructor: argument errors of Model(...)/Response(...) are deliberate ValueErrors
                for a in n.args:
                    self._type(a.value if isinstance(a, ast.Starred) else a, env, depth, o)
                for k in n.keywords:
                    self._type(k.value, env, depth, o)
                return {fn.id}
            if isinstance(fn, ast.Attribute) and isinstance(fn.value, ast.Name):
                t = self._exact(env, fn.value.id)
                if t in self.cls and fn.attr in self.cls[t].methods and not self.cls[t].methods[fn.attr].is_property:
                    args = [self._type(a, env, depth, o) for a in n.args if not isinstance(a, ast.Starred)]
                    sub = self.method(t, fn.attr, args, depth + 1)
                    saved = self._fn
                    o.rejects += sub.rejects
                    o.problems += sub.problems
                    self._fn = saved
                    return set(sub.results) or {"?"}
            for a in n.args:
                self._type(a.value if isinstance(a, ast.Starred) else a, env, depth, o)
            return {"?"}
        if isinstance(n, ast.BinOp):
            method = {ast.Add: "__add__", ast.Sub: "__sub__", ast.Mult: "__mul__", ast.MatMult: "__matmul__",
                      ast.Div: "__truediv__", ast.Pow: "__pow__", ast.BitOr: "__or__"}.get(type(n.op))
            lt = self._type(n.left, env, depth, o)
            rt = self._type(n.right, env, depth, o)
            out = set()
            hit = False
            for a in sorted(lt):
                for b in sorted(rt):
                    if a in self.cls and b in self.cls and method:
                        hit = True
                        saved = self._fn
                        sub = self.binop(method, a, b, depth + 1)
                        self._fn = saved
                        out |= sub.results
                        o.rejects += sub.rejects
                        for k, text, line in sub.problems:
                            o.problems.append((k, f"via `{unparse(n)}` ({a} {method} {b}): {text}", line))
            return out if hit else {"?"}
        if isinstance(n, ast.Subscript):
            el = self._elems(n.value, env)
            return el or {"?"}
        if isinstance(n, ast.IfExp):
            return self._type(n.body, env, depth, o) | self._type(n.orelse, env, depth, o)
        return {"?"}

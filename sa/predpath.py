"""Shared analysis context for the prediction path (C06, C07, C08, C16): typed call graph,
functions reachable from evaluate_new_data, fit-once guard analysis, aggregate classification."""
import ast

from .core import AnalysisError, dotted, unparse, short, walk_local, calls_in, is_self_attr, block_raises
from .cfg import cfg_of, RETURN, FALLOFF
from .types import TypeEngine
from . import dataflow as DF

ROOTS = [
    "formulae.matrices.CommonEffectsMatrix.evaluate_new_data",
    "formulae.matrices.GroupEffectsMatrix.evaluate_new_data",
    "formulae.matrices.ResponseMatrix.evaluate_new_data",
]
POLY = {"eval", "eval_new_data", "set_data", "set_type", "evaluate", "accept", "evaluate_new_data"}
NON_DATA_PARAMS = {"self", "cls", "env"}

_cache = {}


class PredPath:
    def __init__(self, prog):
        self.prog = prog
        self.te = TypeEngine(prog)
        for r in ROOTS:
            if r not in prog.functions:
                raise AnalysisError(f"prediction entry point {r} not found")
        self.path = self.te.reachable(ROOTS)
        self.parent = dict(self.te._parent)
        self.registry = self.te.registry
        self.stateful = set(self.registry["stateful"]) | {q for k, q in self.registry["transforms"].values() if k == "class"}
        self.reg_funcs = {q for k, q in self.registry["callables"] if k == "func"}
        self.reg_classes = {q for k, q in self.registry["callables"] if k == "class"}
        # transient value classes: instantiated by registry *functions* (fresh objects built from the frame at hand)
        self.transient = set()
        for q in self.reg_funcs:
            for t in self.te.reachable([q]):
                f = prog.functions[t]
                if f.cls is not None and f.name == "__init__" and f.cls.qual not in self.stateful:
                    self.transient.add(f.cls.qual)
        self._check_typed_receivers()

    def chain(self, q):
        out = [q]
        while out[-1] in self.parent:
            out.append(self.parent[out[-1]])
        return " <- ".join(x.split(".", 1)[1] for x in out)

    def _check_typed_receivers(self):
        for q in sorted(self.path):
            f = self.prog.functions[q]
            for c in calls_in(f.node):
                if isinstance(c.func, ast.Attribute) and c.func.attr in POLY:
                    site = self.te.sites.get(q, {}).get(id(c))
                    if site is None or not site.targets:
                        t = self.te.type_of(f, c.func.value)
                        if any(a[0] == "inst" for a in t):
                            continue
                        raise AnalysisError(
                            f"untyped receiver of polymorphic call `{short(c)}` in {q} ({f.loc(c)}): the call graph of the "
                            "prediction path would be unsound (name-based fallback is deliberately not used)"
                        )

    # ---- fit-once guards ------------------------------------------------------------------
    def guard_of(self, fn, node):
        """innermost accepted freshness guard enclosing `node` in fn (or its nested closures).
        returns dict(kind, attr, ifnode, root) or None"""
        for root in DF.function_nodes(fn):
            if not any(n is node for n in ast.walk(root)):
                continue
            for ifn, branch in reversed(DF.enclosing_tests(root, node)):
                g = self._guard_form(ifn.test, branch)
                if g is not None:
                    g["ifnode"], g["root"] = ifn, root
                    return g
        return None

    @staticmethod
    def _guard_form(test, branch):
        neg = branch == "orelse"
        t = test
        if isinstance(t, ast.UnaryOp) and isinstance(t.op, ast.Not):
            t, neg = t.operand, not neg
        # not self.flag
        if is_self_attr(t) and neg:
            return {"kind": "flag", "attr": t.attr}
        # k not in self.attr   (or: not (k in self.attr))
        if isinstance(t, ast.Compare) and len(t.ops) == 1 and is_self_attr(t.comparators[0]):
            if (isinstance(t.ops[0], ast.NotIn) and not neg) or (isinstance(t.ops[0], ast.In) and neg):
                return {"kind": "memo", "attr": t.comparators[0].attr, "key": unparse(t.left)}
        # self.attr is None
        if isinstance(t, ast.Compare) and len(t.ops) == 1 and is_self_attr(t.left) and isinstance(t.comparators[0], ast.Constant) \
                and t.comparators[0].value is None:
            if (isinstance(t.ops[0], ast.Is) and not neg) or (isinstance(t.ops[0], ast.IsNot) and neg):
                return {"kind": "none", "attr": t.left.attr}
        return None

    def class_guard_context(self, cls):
        """For a stateful class: per method, is every intra-class call site of it under a freshness guard?
        returns {method name: guard dict or None}"""
        out = {}
        for mname, m in cls.methods.items():
            sites = []
            for other in cls.methods.values():
                for c in calls_in(other.node, local=False):
                    if isinstance(c.func, ast.Attribute) and is_self_attr(c.func) and c.func.attr == mname:
                        sites.append((other, c))
            if not sites:
                out[mname] = None
                continue
            gs = [self.guard_of(o, c) for o, c in sites]
            if all(g is not None for g in gs) and len({(g["kind"], g["attr"]) for g in gs}) == 1:
                g = dict(gs[0])
                g["sites"] = sites
                out[mname] = g
            else:
                out[mname] = None
        return out

    def guard_closed(self, cls, fn, g, store_node=None):
        """The guard is closed on every normal exit of the guarded region."""
        if g["kind"] == "memo":
            # closed by the guarded store itself: self.attr[key] = ...
            root = g["root"]
            for n in ast.walk(g["ifnode"]):
                if isinstance(n, ast.Assign) and isinstance(n.targets[0], ast.Subscript) and is_self_attr(n.targets[0].value, g["attr"]) \
                        and unparse(n.targets[0].slice) == g["key"]:
                    return True, f"self.{g['attr']}[{g['key']}] is stored inside the guard"
            return False, f"no store self.{g['attr']}[{g['key']}] = ... inside the `not in` guard"
        if g["kind"] in ("flag", "none"):
            attr = g["attr"]
            body = g["ifnode"].body if not (isinstance(g["ifnode"].test, ast.UnaryOp) and False) else g["ifnode"].body
            # which branch is the guarded one?
            branch_body = None
            for br in ("body", "orelse"):
                stmts = getattr(g["ifnode"], br)
                if PredPath._guard_form(g["ifnode"].test, br) is not None:
                    branch_body = stmts
            if branch_body is None:
                return False, "guarded branch not identified"

            def sets_flag(stmt):
                return isinstance(stmt, ast.Assign) and any(is_self_attr(t, attr) for t in stmt.targets) and (
                    (g["kind"] == "flag" and isinstance(stmt.value, ast.Constant) and stmt.value.value is True)
                    or (g["kind"] == "none" and not (isinstance(stmt.value, ast.Constant) and stmt.value.value is None))
                )

            # (a) a top-level statement of the guarded branch sets the flag and nothing can leave the branch normally before it
            for i, s in enumerate(branch_body):
                if sets_flag(s):
                    early = [n for st in branch_body[:i] for n in ast.walk(st) if isinstance(n, (ast.Return, ast.Break, ast.Continue))]
                    if not early:
                        return True, f"self.{attr} is set in the guarded branch"
            # (b) a method called at the top level of the guarded branch sets it on every normal exit
            for s in branch_body:
                if isinstance(s, ast.Expr) and isinstance(s.value, ast.Call) and isinstance(s.value.func, ast.Attribute) and is_self_attr(s.value.func):
                    m = cls.methods.get(s.value.func.attr)
                    if m is not None:
                        c = cfg_of(m)
                        nodes = [c.node_of(n) for n in walk_local(m.node) if sets_flag(n)]
                        if nodes and c.must_pass(nodes):
                            return True, f"{m.name} sets self.{attr} on every normal exit"
            return False, f"self.{attr} is not set on every normal exit of the guarded region: the parameters are re-estimated on the next call"
        return False, "unknown guard kind"


def get(prog):
    key = id(prog)
    if key not in _cache:
        _cache.clear()
        _cache[key] = PredPath(prog)
    return _cache[key]

"""Statement-level control-flow graph for the statement kinds the repository uses.

Nodes are simple statements, plus one *header* node per compound statement
(``if``/``while`` test, ``for`` iterator, ``with`` items, ``try`` entry).  Three
virtual exits: RETURN (explicit return), RAISE (explicit raise / failed assert),
FALLOFF (implicit ``return None``).  Only explicit ``raise`` is modelled as
exceptional flow (plus: every node inside a ``try`` body may jump to its handlers).
Unknown statement kinds are an AnalysisError (fail closed).
"""
import ast

from .core import AnalysisError, strip_docstring

ENTRY, RETURN, RAISE, FALLOFF = 0, 1, 2, 3


class CFG:
    def __init__(self, fnode):
        self.fnode = fnode
        self.kind = {ENTRY: "entry", RETURN: "return-exit", RAISE: "raise-exit", FALLOFF: "falloff-exit"}
        self.ast = {}
        self.succ = {ENTRY: [], RETURN: [], RAISE: [], FALLOFF: []}
        self.pred = {ENTRY: [], RETURN: [], RAISE: [], FALLOFF: []}
        self.label = {}
        self.owner = {}  # id(ast node) -> cfg node id (statement or header expression)
        self._n = 4
        self._loops = []
        self._handlers = []
        ends = self._block(strip_docstring(fnode.body), [(ENTRY, None)])
        for e, lab in ends:
            self._edge(e, FALLOFF, lab)
        self._dom = None
        self._pdom = None

    # ---- construction -----------------------------------------------------------------
    def _new(self, kind, node, header=None):
        i = self._n
        self._n += 1
        self.kind[i] = kind
        self.ast[i] = node
        self.succ[i] = []
        self.pred[i] = []
        for sub in ast.walk(header if header is not None else node):
            if header is None and sub is not node and isinstance(sub, (ast.FunctionDef, ast.ClassDef)):
                continue
            self.owner.setdefault(id(sub), i)
        if header is None:
            self.owner[id(node)] = i
        return i

    def _edge(self, a, b, lab=None):
        if b not in self.succ[a]:
            self.succ[a].append(b)
            self.pred[b].append(a)
        if lab is not None:
            self.label[(a, b)] = lab

    def _connect(self, preds, n):
        for p, lab in preds:
            self._edge(p, n, lab)
        # exceptional edges to enclosing handlers
        for hs in self._handlers[-1:]:
            for h in hs:
                self._edge(n, h, "exc")

    def _block(self, stmts, preds):
        for s in stmts:
            if not preds:
                # unreachable code after return/raise: still index it, but disconnected
                pass
            preds = self._stmt(s, preds)
        return preds

    def _stmt(self, s, preds):
        if isinstance(s, (ast.Assign, ast.AugAssign, ast.AnnAssign, ast.Expr, ast.Pass, ast.Delete,
                          ast.Import, ast.ImportFrom, ast.Global, ast.Nonlocal)):
            n = self._new("stmt", s)
            self._connect(preds, n)
            return [(n, None)]
        if isinstance(s, (ast.FunctionDef, ast.ClassDef)):
            n = self._new("def", s, header=ast.Pass())
            self.owner[id(s)] = n
            self._connect(preds, n)
            return [(n, None)]
        if isinstance(s, ast.Return):
            n = self._new("return", s)
            self._connect(preds, n)
            self._edge(n, RETURN)
            return []
        if isinstance(s, ast.Raise):
            n = self._new("raise", s)
            self._connect(preds, n)
            if not self._handlers or not self._handlers[-1]:
                self._edge(n, RAISE)
            else:
                self._edge(n, RAISE)  # may also escape (handler may not match)
            return []
        if isinstance(s, ast.Assert):
            n = self._new("assert", s)
            self._connect(preds, n)
            self._edge(n, RAISE, "assert-fail")
            return [(n, None)]
        if isinstance(s, ast.If):
            n = self._new("if", s, header=s.test)
            self.owner[id(s)] = n
            self._connect(preds, n)
            t = self._block(s.body, [(n, True)])
            f = self._block(s.orelse, [(n, False)]) if s.orelse else [(n, False)]
            return t + f
        if isinstance(s, ast.While):
            n = self._new("while", s, header=s.test)
            self.owner[id(s)] = n
            self._connect(preds, n)
            self._loops.append({"head": n, "breaks": []})
            body_ends = self._block(s.body, [(n, True)])
            for e, lab in body_ends:
                self._edge(e, n, lab)
            lp = self._loops.pop()
            out = list(lp["breaks"])
            infinite = isinstance(s.test, ast.Constant) and bool(s.test.value) is True
            if not infinite:
                if s.orelse:
                    out += self._block(s.orelse, [(n, False)])
                else:
                    out.append((n, False))
            return out
        if isinstance(s, ast.For):
            n = self._new("for", s, header=ast.Tuple(elts=[s.iter, s.target], ctx=ast.Load()))
            self.owner[id(s)] = n
            self._connect(preds, n)
            self._loops.append({"head": n, "breaks": []})
            body_ends = self._block(s.body, [(n, True)])
            for e, lab in body_ends:
                self._edge(e, n, lab)
            lp = self._loops.pop()
            out = list(lp["breaks"])
            if s.orelse:
                out += self._block(s.orelse, [(n, False)])
            else:
                out.append((n, False))
            return out
        if isinstance(s, ast.Break):
            n = self._new("break", s)
            self._connect(preds, n)
            if not self._loops:
                raise AnalysisError("break outside loop")
            self._loops[-1]["breaks"].append((n, None))
            return []
        if isinstance(s, ast.Continue):
            n = self._new("continue", s)
            self._connect(preds, n)
            self._edge(n, self._loops[-1]["head"])
            return []
        if isinstance(s, ast.With):
            hdr = ast.Tuple(elts=[i.context_expr for i in s.items], ctx=ast.Load())
            n = self._new("with", s, header=hdr)
            self.owner[id(s)] = n
            self._connect(preds, n)
            return self._block(s.body, [(n, None)])
        if isinstance(s, ast.Try):
            n = self._new("try", s, header=ast.Pass())
            self.owner[id(s)] = n
            self._connect(preds, n)
            hnodes = []
            for h in s.handlers:
                hn = self._new("except", h, header=h.type if h.type is not None else ast.Pass())
                self.owner[id(h)] = hn
                hnodes.append(hn)
                self._edge(n, hn, "exc")
            self._handlers.append(hnodes)
            ends = self._block(s.body, [(n, None)])
            self._handlers.pop()
            if s.orelse:
                ends = self._block(s.orelse, ends)
            for h, hn in zip(s.handlers, hnodes):
                ends += self._block(h.body, [(hn, None)])
            if s.finalbody:
                fin_entry_preds = ends if ends else []
                # finally runs on every way out; model the normal continuation only, and
                # keep return/raise edges created inside as they are.
                ends = self._block(s.finalbody, fin_entry_preds) if fin_entry_preds else []
                if not fin_entry_preds:
                    # still index the statements of the finally block
                    self._block(s.finalbody, [])
            return ends
        raise AnalysisError(f"CFG: unmodelled statement kind {type(s).__name__} at line {s.lineno}")

    # ---- queries ----------------------------------------------------------------------
    def node_of(self, astnode):
        n = self.owner.get(id(astnode))
        if n is None:
            raise AnalysisError(f"CFG: no node for AST {type(astnode).__name__} at line {getattr(astnode, 'lineno', '?')}")
        return n

    def nodes(self):
        return list(self.succ.keys())

    def reachable(self, start=ENTRY, removed=()):
        removed = set(removed)
        seen = set()
        stack = [start]
        while stack:
            n = stack.pop()
            if n in seen or n in removed:
                continue
            seen.add(n)
            stack.extend(self.succ[n])
        return seen

    def reachable_edges(self, start_edges, removed=()):
        """Nodes reachable starting from specific (a, b) edges."""
        removed = set(removed)
        seen = set()
        stack = [b for a, b in start_edges]
        while stack:
            n = stack.pop()
            if n in seen or n in removed:
                continue
            seen.add(n)
            stack.extend(self.succ[n])
        return seen

    def dominators(self):
        if self._dom is None:
            self._dom = _dominators(self.succ, self.pred, ENTRY)
        return self._dom

    def dominates(self, a, b):
        """a dominates b (every path ENTRY -> b passes a).  Unreachable b: vacuous True."""
        dom = self.dominators()
        if b not in dom:
            return True
        return a in dom[b]

    def must_pass(self, through, targets=(RETURN, FALLOFF), start=ENTRY):
        """Every path from start to any target passes through a node in `through`."""
        seen = self.reachable(start, removed=through)
        return not any(t in seen for t in targets)

    def normal_exit_reachable(self, start, removed=()):
        seen = self.reachable(start, removed)
        return RETURN in seen or FALLOFF in seen

    def falls_off(self):
        return FALLOFF in self.reachable()

    def return_nodes(self):
        return [n for n in self.pred[RETURN]]

    def true_region(self, ifnode):
        """Nodes reachable through the True edge of an if/while header without re-entering it."""
        starts = [(ifnode, b) for b in self.succ[ifnode] if self.label.get((ifnode, b)) is True]
        return self.reachable_edges(starts, removed=[ifnode])

    def false_region(self, ifnode):
        starts = [(ifnode, b) for b in self.succ[ifnode] if self.label.get((ifnode, b)) is False]
        return self.reachable_edges(starts, removed=[ifnode])


def _dominators(succ, pred, entry):
    nodes = set()
    stack = [entry]
    while stack:
        n = stack.pop()
        if n in nodes:
            continue
        nodes.add(n)
        stack.extend(succ[n])
    dom = {n: set(nodes) for n in nodes}
    dom[entry] = {entry}
    changed = True
    order = sorted(nodes)
    while changed:
        changed = False
        for n in order:
            if n == entry:
                continue
            ps = [p for p in pred[n] if p in nodes]
            if not ps:
                continue
            new = set.intersection(*(dom[p] for p in ps)) | {n}
            if new != dom[n]:
                dom[n] = new
                changed = True
    return dom


_cache = {}


def cfg_of(fn):
    """CFG of a FunctionInfo (cached per function node)."""
    key = id(fn.node)
    if key not in _cache:
        _cache[key] = CFG(fn.node)
    return _cache[key]

"""Canonical form of a function body, used to recognise behaviour-preserving refactorings.

`canon(fn_node)` applies only semantics-preserving rewrites (under the stated purity assumption for
expression evaluation: evaluating a sub-expression has no effect that another sub-expression of the same
statement observes) and returns a string.  Two versions of a function with the same canonical form
compute the same thing; when the current version of a reference function is canonically equal to its
reference version, the rules are run on the reference version (sa/refswap.py).  Differences that survive
canonicalisation are left to the rules - the canonicaliser can only *suppress* alarms, never raise one.

Rewrites: docstrings / annotations / comments dropped; message arguments of raise / warnings.warn / logging
calls replaced by a placeholder; `not a in b` -> `a not in b` and the other negated comparisons;
list/tuple/set displays in membership tests unified; conditional expressions that are a whole right-hand side
or return value become if/else statements; early exits are rewritten into else-form; a result variable that
is only assigned in branches and returned at the end is replaced by returns in the branches; single-use
temporaries are substituted forward (only into the next use, never across a statement that could observe the
difference); `xs += [e]` -> `xs.append(e)`; simple append loops become comprehensions; `while True: if c:
break; B` -> `while not c: B`; remaining locals are alpha-renamed in order of first binding.
"""
import ast
import copy

from .core import dotted, unparse

KEEP_MESSAGES = False  # tools/canon_soundness.py sets it: messages and log calls are then left alone
LOG_FUNCS = {"_log.debug", "_log.info", "_log.warning", "_log.error", "logging.debug", "logging.info", "warnings.warn", "print"}
# exact inverses only: `not (a in b)` IS `a not in b`, `not (a is b)` IS `a is not b`.  `==`/`!=` are two different
# methods (numpy arrays, classes that define __ne__), so they are inverted only against a literal constant; ordering
# comparisons are never inverted (NaN).
NEG = {ast.In: ast.NotIn, ast.NotIn: ast.In, ast.Is: ast.IsNot, ast.IsNot: ast.Is}
NEG_CONST = {ast.Eq: ast.NotEq, ast.NotEq: ast.Eq}


def _neg_op(cmp):
    """the inverse operator class of a one-operator comparison, or None when inversion is not exact"""
    op = type(cmp.ops[0])
    if op in NEG:
        return NEG[op]
    if op in NEG_CONST and (isinstance(cmp.left, ast.Constant) or isinstance(cmp.comparators[0], ast.Constant)):
        lit = cmp.left if isinstance(cmp.left, ast.Constant) else cmp.comparators[0]
        if lit.value is None or isinstance(lit.value, (str, int, bool)) and not isinstance(lit.value, float):
            return NEG_CONST[op]
    return None


def _terminates(stmts):
    if not stmts:
        return False
    s = stmts[-1]
    if isinstance(s, (ast.Return, ast.Raise, ast.Continue, ast.Break)):
        return True
    if isinstance(s, ast.If):
        return bool(s.orelse) and _terminates(s.body) and _terminates(s.orelse)
    return False


def _integer_valued(e, defs=None):
    """expressions that are integers whatever the data: len(..), .shape[k], .ndim, .size, and the sum of a boolean mask
    (.any()/.all()/.isna()/.notna()/comparison results)"""
    if isinstance(e, ast.Call) and dotted(e.func) == "len":
        return True
    if isinstance(e, ast.Attribute) and e.attr in ("ndim", "size"):
        return True
    if isinstance(e, ast.Subscript) and isinstance(e.value, ast.Attribute) and e.value.attr == "shape":
        return True
    if isinstance(e, ast.Call) and isinstance(e.func, ast.Attribute) and e.func.attr == "sum" and not e.args and not e.keywords:
        b = e.func.value
        if isinstance(b, ast.Name) and defs and b.id in defs:
            b = defs[b.id]
        if isinstance(b, ast.Call) and isinstance(b.func, ast.Attribute) and b.func.attr in ("any", "all", "isna", "isnull", "notna", "notnull", "duplicated", "isin"):
            return True
    return False


def _getattr_const(node):
    if isinstance(node, ast.Call) and isinstance(node.func, ast.Name) and node.func.id == "getattr" and len(node.args) == 2 and not node.keywords \
            and isinstance(node.args[1], ast.Constant) and isinstance(node.args[1].value, str) and node.args[1].value.isidentifier():
        return ast.copy_location(ast.Attribute(value=node.args[0], attr=node.args[1].value, ctx=ast.Load()), node)
    return node


class _Expr(ast.NodeTransformer):
    def __init__(self, fnode=None):
        # single-assignment locals: name -> defining expression (to see through a temporary)
        self.defs = {}
        if fnode is not None:
            count = {}
            for n in ast.walk(fnode):
                if isinstance(n, ast.Name) and isinstance(n.ctx, (ast.Store, ast.Del)):
                    count[n.id] = count.get(n.id, 0) + 1
            self.all_defs = {}
            for n in ast.walk(fnode):
                if isinstance(n, ast.Assign) and len(n.targets) == 1 and isinstance(n.targets[0], ast.Name) and count.get(n.targets[0].id) == 1:
                    self.defs[n.targets[0].id] = n.value
                if isinstance(n, ast.Assign) and len(n.targets) == 1 and isinstance(n.targets[0], ast.Name):
                    self.all_defs.setdefault(n.targets[0].id, []).append(n.value)
            # a name bound in several branches to calls of the same shape (`products = product(A, B)` / `products = product(A, [b])`)
            self.arity_defs = {}
            for nm, vals in self.all_defs.items():
                if count.get(nm) == len(vals) and all(isinstance(v, ast.Call) and dotted(v.func) in ("product", "itertools.product", "zip") and not v.keywords
                                                       and not any(isinstance(a, ast.Starred) for a in v.args) for v in vals) \
                        and len({len(v.args) for v in vals}) == 1:
                    self.arity_defs[nm] = vals[0]

    @staticmethod
    def _getattr_default(node):
        """getattr(<pure read>, '<name>', <constant default>) -> (object expr, name, default value) or None"""
        if isinstance(node, ast.Call) and dotted(node.func) == "getattr" and len(node.args) == 3 and not node.keywords \
                and isinstance(node.args[1], ast.Constant) and isinstance(node.args[1].value, str) and node.args[1].value.isidentifier() \
                and isinstance(node.args[2], ast.Constant) and (isinstance(node.args[0], ast.Name) or _attr_chain(node.args[0])):
            return node.args[0], node.args[1].value, node.args[2].value
        return None

    @staticmethod
    def _has_and(obj, name, test):
        has = ast.Call(func=ast.Name(id="hasattr", ctx=ast.Load()), args=[copy.deepcopy(obj), ast.Constant(value=name)], keywords=[])
        return has, test

    def visit_UnaryOp(self, node):
        self.generic_visit(node)
        if isinstance(node.op, ast.Not):
            g = self._getattr_default(node.operand)
            if g is not None and g[2] in (False, None):
                # not getattr(x, 'a', False)  ==  not hasattr(x, 'a') or not x.a
                obj, name, _ = g
                has = ast.Call(func=ast.Name(id="hasattr", ctx=ast.Load()), args=[copy.deepcopy(obj), ast.Constant(value=name)], keywords=[])
                attr = ast.Attribute(value=copy.deepcopy(obj), attr=name, ctx=ast.Load())
                return ast.copy_location(ast.BoolOp(op=ast.Or(), values=[ast.UnaryOp(op=ast.Not(), operand=has), ast.UnaryOp(op=ast.Not(), operand=attr)]), node)
        if isinstance(node.op, ast.Not) and isinstance(node.operand, ast.Compare) and len(node.operand.ops) == 1:
            inv = _neg_op(node.operand)
            if inv is not None:
                c = node.operand
                return ast.copy_location(ast.Compare(left=c.left, ops=[inv()], comparators=c.comparators), node)
        if isinstance(node.op, ast.Not) and isinstance(node.operand, ast.UnaryOp) and isinstance(node.operand.op, ast.Not):
            inner = node.operand.operand
            if isinstance(inner, (ast.Compare, ast.BoolOp)) or (isinstance(inner, ast.Call) and dotted(inner.func) in ("isinstance", "hasattr", "callable")):
                return inner
        return node

    def visit_BoolOp(self, node):
        self.generic_visit(node)
        vals = []
        for v in node.values:
            if isinstance(v, ast.BoolOp) and type(v.op) is type(node.op):
                vals.extend(v.values)
            else:
                vals.append(v)
        node.values = vals
        return node

    def visit_Compare(self, node):
        self.generic_visit(node)
        node = self._keys_membership(node)
        g = self._getattr_compare(node)
        if g is not None:
            return g
        return self._compare_rest(node)

    def _getattr_compare(self, node):
        # getattr(x, 'a', None) is not None  ==  hasattr(x, 'a') and x.a is not None   (and the `is None` dual)
        if len(node.ops) == 1 and isinstance(node.ops[0], (ast.Is, ast.IsNot)) and isinstance(node.comparators[0], ast.Constant) \
                and node.comparators[0].value is None:
            g = self._getattr_default(node.left)
            if g is not None and g[2] is None:
                obj, name, _ = g
                has = ast.Call(func=ast.Name(id="hasattr", ctx=ast.Load()), args=[copy.deepcopy(obj), ast.Constant(value=name)], keywords=[])
                attr = ast.Attribute(value=copy.deepcopy(obj), attr=name, ctx=ast.Load())
                if isinstance(node.ops[0], ast.IsNot):
                    return ast.copy_location(ast.BoolOp(op=ast.And(), values=[
                        has, ast.Compare(left=attr, ops=[ast.IsNot()], comparators=[ast.Constant(value=None)])]), node)
                return ast.copy_location(ast.BoolOp(op=ast.Or(), values=[
                    ast.UnaryOp(op=ast.Not(), operand=has), ast.Compare(left=attr, ops=[ast.Is()], comparators=[ast.Constant(value=None)])]), node)
        return None

    @staticmethod
    def _keys_membership(node):
        """`k in D.keys()` == `k in D`"""
        if len(node.ops) == 1 and isinstance(node.ops[0], (ast.In, ast.NotIn)):
            c = node.comparators[0]
            if isinstance(c, ast.Call) and isinstance(c.func, ast.Attribute) and c.func.attr == "keys" and not c.args and not c.keywords:
                node.comparators[0] = c.func.value
        return node

    def _compare_rest(self, node):
        # membership in a literal display: list / tuple / set are interchangeable
        for i, (op, c) in enumerate(zip(node.ops, node.comparators)):
            if isinstance(op, (ast.In, ast.NotIn)) and isinstance(c, (ast.List, ast.Set)) and all(isinstance(e, ast.Constant) for e in c.elts):
                node.comparators[i] = ast.copy_location(ast.Tuple(elts=c.elts, ctx=ast.Load()), c)
        # len(x) < 1  /  len(x) <= 0  ->  len(x) == 0 ;  len(x) >= 1 -> len(x) > 0
        if len(node.ops) == 1 and _integer_valued(node.left, getattr(self, "defs", None)) and isinstance(node.comparators[0], ast.Constant) \
                and isinstance(node.comparators[0].value, int) and not isinstance(node.comparators[0].value, bool):
            k, op = node.comparators[0].value, type(node.ops[0])
            if (op is ast.Lt and k == 1) or (op is ast.LtE and k == 0):
                node.ops, node.comparators = [ast.Eq()], [ast.Constant(value=0)]
            elif (op is ast.GtE and k == 1) or (op is ast.NotEq and k == 0):
                node.ops, node.comparators = [ast.Gt()], [ast.Constant(value=0)]
            elif op is ast.GtE and isinstance(k, int) and k >= 2:
                node.ops, node.comparators = [ast.Gt()], [ast.Constant(value=k - 1)]
        return node

    def visit_Call(self, node):
        self.generic_visit(node)
        d = dotted(node.func)
        if d in LOG_FUNCS and not KEEP_MESSAGES:
            node.args = [ast.Constant(value="MSG")]
            node.keywords = []
        if d in ("list", "tuple") and len(node.args) == 1 and isinstance(node.args[0], (ast.ListComp,)) and not node.keywords:
            return node.args[0] if d == "list" else node
        # f(*[a, b]) with a literal display == f(a, b)
        if any(isinstance(a, ast.Starred) and isinstance(a.value, (ast.List, ast.Tuple)) and not any(isinstance(e, ast.Starred) for e in a.value.elts) for a in node.args):
            flat = []
            for a in node.args:
                if isinstance(a, ast.Starred) and isinstance(a.value, (ast.List, ast.Tuple)) and not any(isinstance(e, ast.Starred) for e in a.value.elts):
                    flat.extend(a.value.elts)
                else:
                    flat.append(a)
            node.args = flat
        # set algebra by method or by operator: a.union(b) == a | b, a.intersection(b) == a & b (one argument)
        if isinstance(node.func, ast.Attribute) and node.func.attr in ("union", "intersection") and len(node.args) == 1 and not node.keywords \
                and not isinstance(node.args[0], ast.Starred):
            return ast.copy_location(ast.BinOp(left=node.func.value, op=ast.BitOr() if node.func.attr == "union" else ast.BitAnd(), right=node.args[0]), node)
        # iterating a mapping iterates its keys: list(D.keys()) == list(D), sorted / set / tuple / len alike
        if d in ("list", "tuple", "sorted", "set", "len", "iter") and len(node.args) == 1 and not node.keywords and isinstance(node.args[0], ast.Call) \
                and isinstance(node.args[0].func, ast.Attribute) and node.args[0].func.attr == "keys" and not node.args[0].args and not node.args[0].keywords:
            node.args[0] = node.args[0].func.value
        if d == "isinstance" and len(node.args) == 2 and isinstance(node.args[1], ast.Tuple) and len(node.args[1].elts) >= 2 and not node.keywords \
                and isinstance(node.args[0], (ast.Name, ast.Attribute)):
            # isinstance(x, (A, B)) == isinstance(x, A) or isinstance(x, B)
            return ast.copy_location(ast.BoolOp(op=ast.Or(), values=[
                ast.Call(func=ast.Name(id="isinstance", ctx=ast.Load()), args=[copy.deepcopy(node.args[0]), t], keywords=[]) for t in node.args[1].elts]), node)
        return _getattr_const(node)

    def visit_Raise(self, node):
        self.generic_visit(node)
        if isinstance(node.exc, ast.Call) and not KEEP_MESSAGES:
            node.exc.args = [ast.Constant(value="MSG")] if node.exc.args else []
            node.exc.keywords = []
        return node

    def visit_JoinedStr(self, node):
        self.generic_visit(node)
        # f"{'X'} y" == "X y": constant string pieces are folded into the literal text
        parts = []
        for v in node.values:
            if isinstance(v, ast.FormattedValue) and isinstance(v.value, ast.Constant) and isinstance(v.value.value, str) \
                    and v.conversion == -1 and v.format_spec is None:
                v = ast.Constant(value=v.value.value)
            if isinstance(v, ast.Constant) and isinstance(v.value, str) and parts and isinstance(parts[-1], ast.Constant):
                parts[-1] = ast.Constant(value=parts[-1].value + v.value)
            else:
                parts.append(v)
        if all(isinstance(v, ast.Constant) for v in parts):
            return ast.copy_location(ast.Constant(value="".join(v.value for v in parts)), node)
        node.values = parts
        return node

    def _pair_target(self, node):
        """[f(a, b) for a, b in product(A, B)]  ->  [f(p[0], p[1]) for p in product(A, B)]: the elements of product / zip /
        enumerate / dict.items() are tuples of exactly that many items, so unpacking in the target and indexing are the same"""
        for g in node.generators:
            t = g.target
            if isinstance(t, ast.Name) and not isinstance(node, ast.DictComp):
                # f(*p) for p in product(A, B)  ->  f(p[0], p[1]): the elements are tuples of exactly that many items
                it0 = g.iter
                if isinstance(it0, ast.Name) and it0.id in getattr(self, "defs", {}):
                    it0 = self.defs[it0.id]
                elif isinstance(it0, ast.Name) and it0.id in getattr(self, "arity_defs", {}):
                    it0 = self.arity_defs[it0.id]
                d0 = dotted(it0.func) if isinstance(it0, ast.Call) else None
                if d0 in ("product", "itertools.product", "zip") and len(it0.args) >= 2 and not it0.keywords \
                        and not any(isinstance(a, ast.Starred) for a in it0.args):
                    n0 = len(it0.args)
                    for c in ast.walk(node.elt):
                        if isinstance(c, ast.Call) and any(isinstance(a, ast.Starred) and isinstance(a.value, ast.Name) and a.value.id == t.id for a in c.args):
                            new_args = []
                            for a in c.args:
                                if isinstance(a, ast.Starred) and isinstance(a.value, ast.Name) and a.value.id == t.id:
                                    new_args += [ast.Subscript(value=ast.Name(id=t.id, ctx=ast.Load()), slice=ast.Constant(value=i), ctx=ast.Load()) for i in range(n0)]
                                else:
                                    new_args.append(a)
                            c.args = new_args
                continue
            if not (isinstance(t, ast.Tuple) and t.elts and all(isinstance(e, ast.Name) for e in t.elts)):
                continue
            it = g.iter
            if isinstance(it, ast.Name) and it.id in getattr(self, "defs", {}):
                it = self.defs[it.id]
            d = dotted(it.func) if isinstance(it, ast.Call) else None
            n = len(t.elts)
            only = getattr(self, "PAIR_SOURCES", None)
            if only is not None and d not in only:
                continue
            ok = (d in ("product", "itertools.product", "zip") and len(it.args) == n and not it.keywords and not any(isinstance(a, ast.Starred) for a in it.args)) \
                or (d == "enumerate" and n == 2) \
                or (isinstance(it, ast.Call) and isinstance(it.func, ast.Attribute) and it.func.attr == "items" and not it.args and n == 2)
            if not ok:
                continue
            names = [e.id for e in t.elts]
            if len(set(names)) != n:
                continue
            # the names must not be re-bound inside the comprehension (nested comprehension targets)
            inner_targets = {x.id for h in node.generators if h is not g for x in ast.walk(h.target) if isinstance(x, ast.Name)}
            if inner_targets & set(names):
                continue
            self._pair_counter = getattr(self, "_pair_counter", 0) + 1
            pv = f"p__{self._pair_counter}"
            idx = {nm: i for i, nm in enumerate(names)}

            class Sub(ast.NodeTransformer):
                def visit_Name(self_, x):
                    if isinstance(x.ctx, ast.Load) and x.id in idx:
                        return ast.copy_location(ast.Subscript(value=ast.Name(id=pv, ctx=ast.Load()), slice=ast.Constant(value=idx[x.id]), ctx=ast.Load()), x)
                    return x

            g.target = ast.copy_location(ast.Name(id=pv, ctx=ast.Store()), t)
            g.ifs = [Sub().visit(c) for c in g.ifs]
            later = node.generators[node.generators.index(g) + 1:]
            for h in later:
                h.iter = Sub().visit(h.iter)
                h.ifs = [Sub().visit(c) for c in h.ifs]
            if isinstance(node, ast.DictComp):
                node.key, node.value = Sub().visit(node.key), Sub().visit(node.value)
            else:
                node.elt = Sub().visit(node.elt)
        return node

    def visit_ListComp(self, node):
        self.generic_visit(node)
        return self._pair_target(node)

    def visit_GeneratorExp(self, node):
        self.generic_visit(node)
        return self._pair_target(node)

    def visit_SetComp(self, node):
        self.generic_visit(node)
        return self._pair_target(node)

    def visit_DictComp(self, node):
        self.generic_visit(node)
        return self._pair_target(node)

    def visit_IfExp(self, node):
        self.generic_visit(node)
        # a conditional expression on a literal truth value (a flag parameter of an inlined helper)
        if isinstance(node.test, ast.Constant) and isinstance(node.test.value, bool):
            return node.body if node.test.value else node.orelse
        return node

    def visit_BinOp(self, node):
        self.generic_visit(node)
        if isinstance(node.op, ast.Add) and isinstance(node.left, ast.Constant) and isinstance(node.right, ast.Constant) \
                and isinstance(node.left.value, str) and isinstance(node.right.value, str):
            return ast.copy_location(ast.Constant(value=node.left.value + node.right.value), node)
        return node


def _strip(fnode):
    fnode.returns = None
    for a in fnode.args.posonlyargs + fnode.args.args + fnode.args.kwonlyargs:
        a.annotation = None
    if fnode.args.vararg:
        fnode.args.vararg.annotation = None
    if fnode.args.kwarg:
        fnode.args.kwarg.annotation = None

    def strip_block(stmts):
        out = []
        for i, s in enumerate(stmts):
            if isinstance(s, ast.Expr) and isinstance(s.value, ast.Constant) and isinstance(s.value.value, str):
                continue
            if isinstance(s, ast.Expr) and isinstance(s.value, ast.Call) and dotted(s.value.func) in ("_log.debug", "logging.debug") and not KEEP_MESSAGES:
                continue
            if isinstance(s, ast.AnnAssign):
                if s.value is None:
                    continue
                s = ast.copy_location(ast.Assign(targets=[s.target], value=s.value), s)
            if isinstance(s, ast.Pass) and len(stmts) > 1:
                continue
            for fld in ("body", "orelse", "finalbody"):
                if hasattr(s, fld) and isinstance(getattr(s, fld), list) and not isinstance(s, (ast.FunctionDef, ast.ClassDef)):
                    setattr(s, fld, strip_block(getattr(s, fld)))
            if isinstance(s, ast.Try):
                for h in s.handlers:
                    h.body = strip_block(h.body) or [ast.Pass()]
            if isinstance(s, (ast.FunctionDef,)):
                _strip(s)
                s.body = strip_block(s.body) or [ast.Pass()]
            out.append(s)
        return out

    fnode.body = strip_block(fnode.body) or [ast.Pass()]


# ---- statement-level rewrites -----------------------------------------------------------------
def _ifexp_to_stmt(stmts):
    out = []
    for s in stmts:
        _recurse(s, _ifexp_to_stmt)
        if isinstance(s, ast.Assign) and isinstance(s.value, ast.IfExp) and len(s.targets) == 1:
            e = s.value
            out.append(ast.copy_location(ast.If(test=e.test, body=[ast.Assign(targets=s.targets, value=e.body)],
                                                orelse=[ast.Assign(targets=copy.deepcopy(s.targets), value=e.orelse)]), s))
        elif isinstance(s, ast.Return) and isinstance(s.value, ast.IfExp):
            e = s.value
            out.append(ast.copy_location(ast.If(test=e.test, body=[ast.Return(value=e.body)], orelse=[ast.Return(value=e.orelse)]), s))
        else:
            out.append(s)
    return out


def _recurse(s, f):
    for fld in ("body", "orelse", "finalbody"):
        if hasattr(s, fld) and isinstance(getattr(s, fld), list) and not isinstance(s, (ast.FunctionDef, ast.ClassDef)):
            setattr(s, fld, f(getattr(s, fld)))
    if isinstance(s, ast.Try):
        for h in s.handlers:
            h.body = f(h.body)


def _else_form(stmts):
    """`if c: <exits>` followed by rest  ->  `if c: <exits> else: rest`; drop `else` after nothing"""
    out = []
    for i, s in enumerate(stmts):
        _recurse(s, _else_form)
        if isinstance(s, ast.If) and not s.orelse and _terminates(s.body) and i + 1 < len(stmts):
            s.orelse = _else_form(stmts[i + 1:])
            out.append(s)
            return out
        if isinstance(s, ast.If) and s.orelse and _terminates(s.body) and not _terminates(s.orelse) and i + 1 < len(stmts):
            # if c: <exits> else: B ; rest   ->  if c: <exits> else: B; rest
            s.orelse = _else_form(list(s.orelse) + stmts[i + 1:])
            out.append(s)
            return out
        if isinstance(s, ast.If) and s.orelse and _terminates(s.orelse) and not _terminates(s.body) and i + 1 < len(stmts):
            # if c: A else: <exits> ; rest   ->  if c: A; rest else: <exits>
            s.body = _else_form(list(s.body) + stmts[i + 1:])
            out.append(s)
            return out
        out.append(s)
    return out


def _negate(test):
    if isinstance(test, ast.UnaryOp) and isinstance(test.op, ast.Not):
        return test.operand
    if isinstance(test, ast.Compare) and len(test.ops) == 1 and _neg_op(test) is not None:
        return ast.Compare(left=test.left, ops=[_neg_op(test)()], comparators=test.comparators)
    return ast.UnaryOp(op=ast.Not(), operand=test)


def _negate_full(test):
    """logical negation with De Morgan pushed through and/or"""
    if isinstance(test, ast.BoolOp):
        op = ast.Or() if isinstance(test.op, ast.And) else ast.And()
        return ast.BoolOp(op=op, values=[_negate_full(v) for v in test.values])
    return _negate(copy.deepcopy(test))


def _negativity(test):
    n = 0
    for x in ast.walk(test):
        if isinstance(x, ast.UnaryOp) and isinstance(x.op, ast.Not):
            n += 1
        if isinstance(x, ast.Compare):
            n += sum(1 for o in x.ops if isinstance(o, (ast.NotIn, ast.IsNot, ast.NotEq)))
    return n


def _positive_if(stmts):
    """an if with both arms gets the polarity of its test with the fewest negations (ties: the textually smaller one);
    the arms are swapped accordingly.  `not a or not b` == not (a and b)."""
    for s in stmts:
        _recurse(s, _positive_if)
        if isinstance(s, ast.If) and s.orelse:
            neg = _negate_full(s.test)
            a, b = (_negativity(s.test), unparse(s.test)), (_negativity(neg), unparse(neg))
            if b < a:
                s.test, s.body, s.orelse = neg, s.orelse, s.body
    return stmts


def _push_return(stmts):
    """`if c: r = a else: r = b` ... `return r`  ->  returns in the arms, when r is only assigned in tail arms;
    `if c: r = a` ... `return r`  ->  `if c: return a else: return r`"""
    if len(stmts) >= 2 and isinstance(stmts[-1], ast.Return) and isinstance(stmts[-1].value, ast.Name):
        r = stmts[-1].value.id
        prev = stmts[-2]
        if isinstance(prev, ast.If) and not prev.orelse and prev.body and isinstance(prev.body[-1], ast.Assign) \
                and len(prev.body[-1].targets) == 1 and isinstance(prev.body[-1].targets[0], ast.Name) and prev.body[-1].targets[0].id == r:
            prev.orelse = [ast.Return(value=ast.Name(id=r, ctx=ast.Load()))]
        if isinstance(prev, ast.If) and _assigns_only_last(prev, r):
            _replace_tail_assign(prev, r)
            stmts = stmts[:-2] + [prev]
    for s in stmts:
        _recurse(s, _push_return)
    return stmts


def _assigns_only_last(ifnode, name):
    """every arm of the if (recursively through nested tail ifs) ends with `name = e` or exits, and name is not used otherwise after"""
    def arm_ok(arm):
        if not arm:
            return False
        last = arm[-1]
        if isinstance(last, ast.Assign) and len(last.targets) == 1 and isinstance(last.targets[0], ast.Name) and last.targets[0].id == name:
            return True
        if isinstance(last, (ast.Return, ast.Raise)):
            return True
        if isinstance(last, ast.If) and last.orelse:
            return arm_ok(last.body) and arm_ok(last.orelse)
        return False
    return bool(ifnode.orelse) and arm_ok(ifnode.body) and arm_ok(ifnode.orelse)


def _replace_tail_assign(ifnode, name):
    for arm in (ifnode.body, ifnode.orelse):
        last = arm[-1]
        if isinstance(last, ast.Assign):
            arm[-1] = ast.copy_location(ast.Return(value=last.value), last)
        elif isinstance(last, ast.If):
            _replace_tail_assign(last, name)


def _aug_append(stmts):
    for i, s in enumerate(stmts):
        _recurse(s, _aug_append)
        if isinstance(s, ast.AugAssign) and isinstance(s.op, ast.Add) and isinstance(s.value, ast.List) and len(s.value.elts) == 1 \
                and isinstance(s.target, ast.Name):
            stmts[i] = ast.copy_location(ast.Expr(value=ast.Call(func=ast.Attribute(value=ast.Name(id=s.target.id, ctx=ast.Load()), attr="append", ctx=ast.Load()),
                                                                 args=[s.value.elts[0]], keywords=[])), s)
    return stmts


def _loop_to_comp(stmts):
    """xs = []; for v in it: xs.append(e)   ->   xs = [e for v in it]"""
    out = []
    i = 0
    while i < len(stmts):
        s = stmts[i]
        _recurse(s, _loop_to_comp)
        if (isinstance(s, ast.Assign) and len(s.targets) == 1 and isinstance(s.targets[0], ast.Name) and isinstance(s.value, ast.List) and not s.value.elts):
            name = s.targets[0].id
            # the first later statement that mentions the list; what lies between does not see it, so the empty list may be
            # created right in front of that statement
            j = i + 1
            while j < len(stmts) and not any(isinstance(n, ast.Name) and n.id == name for n in ast.walk(stmts[j])):
                j += 1
            if j < len(stmts) and isinstance(stmts[j], ast.For) and not stmts[j].orelse:
                lp = stmts[j]
                comp = _comp_of_loop(lp, name)
                if comp is not None:
                    for k in range(i + 1, j):
                        _recurse(stmts[k], _loop_to_comp)
                        out.append(stmts[k])
                    out.append(ast.copy_location(ast.Assign(targets=s.targets, value=comp), s))
                    i = j + 1
                    continue
        out.append(s)
        i += 1
    return out


def _and_return_to_if(stmts):
    """return C and REST  (C a bool-valued test: isinstance(...), a comparison, not ...)   ->   if C: return REST / else: return False"""
    out = []
    for s in stmts:
        _recurse(s, _and_return_to_if)
        if isinstance(s, ast.Return) and isinstance(s.value, ast.BoolOp) and isinstance(s.value.op, ast.And) and len(s.value.values) >= 2:
            c = s.value.values[0]
            boolish = (isinstance(c, ast.Call) and dotted(c.func) in ("isinstance", "issubclass", "hasattr", "callable")) or \
                (isinstance(c, ast.Compare) and all(isinstance(o, (ast.Is, ast.IsNot, ast.In, ast.NotIn)) for o in c.ops)) or \
                (isinstance(c, ast.UnaryOp) and isinstance(c.op, ast.Not))
            if boolish:
                rest = s.value.values[1:]
                restv = rest[0] if len(rest) == 1 else ast.BoolOp(op=ast.And(), values=rest)
                new = ast.If(test=c, body=[ast.Return(value=restv)], orelse=[ast.Return(value=ast.Constant(value=False))])
                ast.copy_location(new, s)
                ast.fix_missing_locations(new)
                out.append(new)
                continue
        out.append(s)
    return out


def _update_loop_to_dictcomp(stmts):
    """d = {}; for m in L: d.update(m)   ->   d = {p[0]: p[1] for m in L for p in m.items()}   (later keys win in both forms)"""
    out = []
    i = 0
    while i < len(stmts):
        s = stmts[i]
        _recurse(s, _update_loop_to_dictcomp)
        if (isinstance(s, ast.Assign) and len(s.targets) == 1 and isinstance(s.targets[0], ast.Name) and isinstance(s.value, ast.Dict) and not s.value.keys
                and i + 1 < len(stmts) and isinstance(stmts[i + 1], ast.For) and not stmts[i + 1].orelse and isinstance(stmts[i + 1].target, ast.Name)):
            name = s.targets[0].id
            lp = stmts[i + 1]
            if len(lp.body) == 1 and isinstance(lp.body[0], ast.Expr) and isinstance(lp.body[0].value, ast.Call):
                c = lp.body[0].value
                if isinstance(c.func, ast.Attribute) and c.func.attr == "update" and isinstance(c.func.value, ast.Name) and c.func.value.id == name \
                        and len(c.args) == 1 and not c.keywords and isinstance(c.args[0], ast.Name) and c.args[0].id == lp.target.id \
                        and not any(isinstance(n, ast.Name) and n.id == name for n in ast.walk(lp.iter)):
                    pv = "p__" + name
                    comp = ast.DictComp(
                        key=ast.Subscript(value=ast.Name(id=pv, ctx=ast.Load()), slice=ast.Constant(value=0), ctx=ast.Load()),
                        value=ast.Subscript(value=ast.Name(id=pv, ctx=ast.Load()), slice=ast.Constant(value=1), ctx=ast.Load()),
                        generators=[ast.comprehension(target=lp.target, iter=lp.iter, ifs=[], is_async=0),
                                    ast.comprehension(target=ast.Name(id=pv, ctx=ast.Store()),
                                                      iter=ast.Call(func=ast.Attribute(value=ast.Name(id=lp.target.id, ctx=ast.Load()), attr="items", ctx=ast.Load()), args=[], keywords=[]),
                                                      ifs=[], is_async=0)])
                    new = ast.Assign(targets=s.targets, value=comp)
                    ast.copy_location(new, s)
                    ast.fix_missing_locations(new)
                    out.append(new)
                    i += 2
                    continue
        out.append(s)
        i += 1
    return out


def _comp_of_loop(lp, name):
    gens = [ast.comprehension(target=lp.target, iter=lp.iter, ifs=[], is_async=0)]
    body = lp.body
    while True:
        if len(body) == 1 and isinstance(body[0], ast.For) and not body[0].orelse:
            gens.append(ast.comprehension(target=body[0].target, iter=body[0].iter, ifs=[], is_async=0))
            body = body[0].body
            continue
        if len(body) == 1 and isinstance(body[0], ast.If) and not body[0].orelse:
            gens[-1].ifs.append(body[0].test)
            body = body[0].body
            continue
        break
    if len(body) == 1 and isinstance(body[0], ast.Expr) and isinstance(body[0].value, ast.Call):
        c = body[0].value
        if isinstance(c.func, ast.Attribute) and c.func.attr == "append" and isinstance(c.func.value, ast.Name) and c.func.value.id == name and len(c.args) == 1:
            uses = [n for g in gens for n in ast.walk(g.iter) if isinstance(n, ast.Name) and n.id == name] + \
                   [n for n in ast.walk(c.args[0]) if isinstance(n, ast.Name) and n.id == name]
            if not uses:
                return ast.ListComp(elt=c.args[0], generators=gens)
    return None


def _while_true(stmts):
    """while True: if c: break; B  ->  while not c: B"""
    for s in stmts:
        _recurse(s, _while_true)
        if isinstance(s, ast.While) and isinstance(s.test, ast.Constant) and s.test.value is True and s.body and not s.orelse:
            first = s.body[0]
            if isinstance(first, ast.If) and len(first.body) == 1 and isinstance(first.body[0], ast.Break) and not first.orelse \
                    and not any(isinstance(n, (ast.Break, ast.Continue)) for b in s.body[1:] for n in ast.walk(b)):
                s.test = _negate(first.test)
                s.body = s.body[1:] or [ast.Pass()]
            elif isinstance(first, ast.If) and first.orelse and len(first.orelse) == 1 and isinstance(first.orelse[0], ast.Break) and len(s.body) == 1 \
                    and not any(isinstance(n, (ast.Break, ast.Continue)) for b in first.body for n in ast.walk(b)):
                s.test = first.test
                s.body = first.body
    return stmts


# ---- forward substitution of single-use temporaries ----------------------------------------------
def _uses(node, name):
    """reads of `name`: loads, and the targets of augmented assignments (x += e reads x)"""
    out = [n for n in ast.walk(node) if isinstance(n, ast.Name) and n.id == name and isinstance(n.ctx, ast.Load)]
    for n in ast.walk(node):
        if isinstance(n, ast.AugAssign) and isinstance(n.target, ast.Name) and n.target.id == name:
            out.append(n.target)
    return out


def _stores(node, name):
    return [n for n in ast.walk(node) if isinstance(n, ast.Name) and n.id == name and isinstance(n.ctx, (ast.Store, ast.Del))]


def _forward_subst(fnode):
    """x = e ; S(x)  ->  S(e)  when x is assigned exactly once in the function, used exactly once, and that use is in the
    statement that immediately follows the assignment (header expression of it), outside loops bodies relative to the def."""
    changed = True
    rounds = 0
    while changed and rounds < 30:
        changed = False
        rounds += 1
        for block in _blocks(fnode):
            i = 0
            while i + 1 < len(block):
                s, nxt = block[i], block[i + 1]
                if isinstance(s, ast.Assign) and len(s.targets) == 1 and isinstance(s.targets[0], ast.Name):
                    name = s.targets[0].id
                    if len(_stores(fnode, name)) == 1 and name not in [a.arg for a in fnode.args.args]:
                        total = _uses(fnode, name)
                        hdr = _header(nxt)
                        here = [u for h in hdr for u in _uses(h, name)]
                        if len(total) == 1 and len(here) == 1 and not _in_scope_breaker(hdr, here[0]) \
                                and (_stable_local(s.value) or not _call_before(hdr, here[0])):
                            _replace(nxt, here[0], s.value)
                            del block[i]
                            changed = True
                            continue
                        # sink across following pure local assignments that do not touch what the value reads
                        if len(total) == 1 and not here and _readonly_expr(s.value):
                            reads = {n.id for n in ast.walk(s.value) if isinstance(n, ast.Name)}
                            j = i + 1
                            while j < len(block) and _pure_local_assign(block[j]) and block[j].targets[0].id not in reads \
                                    and not _uses(block[j], name):
                                j += 1
                            if j > i + 1 and j < len(block):
                                hdr2 = _header(block[j])
                                here2 = [u for h in hdr2 for u in _uses(h, name)]
                                if len(here2) == 1 and not _in_scope_breaker(hdr2, here2[0]) and not _call_before(hdr2, here2[0]):
                                    _replace(block[j], here2[0], s.value)
                                    del block[i]
                                    changed = True
                                    continue
                i += 1
    return fnode


PURE_BUILTINS = {"slice", "len", "isinstance", "range", "tuple", "str", "int", "float", "bool", "hasattr", "type", "min", "max", "abs"}


def _readonly_expr(e):
    """reads only: names, attributes, subscripts, constants, pure builtins - evaluating it cannot change anything"""
    for n in ast.walk(e):
        if isinstance(n, ast.Call) and not (isinstance(n.func, ast.Name) and n.func.id in PURE_BUILTINS):
            return False
        if isinstance(n, (ast.Lambda, ast.ListComp, ast.SetComp, ast.DictComp, ast.GeneratorExp, ast.Await, ast.Yield, ast.NamedExpr, ast.Starred)):
            return False
    return True


def _pure_local_assign(s):
    return isinstance(s, ast.Assign) and len(s.targets) == 1 and isinstance(s.targets[0], ast.Name) and _readonly_expr(s.value)


def _stable_local(e):
    """constants / local names only: evaluating it earlier or later gives the same value"""
    return all(isinstance(n, (ast.Name, ast.Constant, ast.Tuple, ast.expr_context, ast.Compare, ast.BinOp, ast.UnaryOp, ast.BoolOp,
                              ast.operator, ast.cmpop, ast.unaryop, ast.boolop)) for n in ast.walk(e))


def _call_before(hdrs, use):
    """a call (or other effectful evaluation) of the receiving header completes before `use` is evaluated"""
    for h in hdrs:
        order = list(_in_order(h))
        if not any(n is use for n in order):
            continue
        upos = [i for i, n in enumerate(order) if n is use][0]
        for i, n in enumerate(order[:upos]):
            if isinstance(n, (ast.Call, ast.Await, ast.Yield, ast.NamedExpr)) and not any(x is use for x in ast.walk(n)):
                return True
            if isinstance(n, ast.Call) and any(x is use for x in ast.walk(n)):
                # use is inside this call: arguments evaluated before it count
                for a in [n.func] + list(n.args) + [k.value for k in n.keywords]:
                    if any(x is use for x in ast.walk(a)):
                        break
                    if any(isinstance(x, ast.Call) for x in ast.walk(a)):
                        return True
        return False
    return False


def _blocks(fnode):
    out = [fnode.body]
    for n in ast.walk(fnode):
        if n is fnode:
            continue
        for fld in ("body", "orelse", "finalbody"):
            v = getattr(n, fld, None)
            if isinstance(v, list) and v and isinstance(v[0], ast.stmt) and not isinstance(n, (ast.FunctionDef, ast.ClassDef)):
                out.append(v)
        if isinstance(n, ast.ExceptHandler):
            out.append(n.body)
    return out


def _header(s):
    if isinstance(s, (ast.Assign, ast.AugAssign)):
        return [s.value] + ([t for t in s.targets if not isinstance(t, ast.Name)] if isinstance(s, ast.Assign) else [])
    if isinstance(s, (ast.Expr, ast.Return)):
        return [s.value] if s.value is not None else []
    if isinstance(s, ast.If):
        return [s.test]
    if isinstance(s, ast.For):
        return [s.iter]
    if isinstance(s, ast.Raise):
        return [s.exc] if s.exc is not None else []
    return []


def _in_scope_breaker(hdrs, use):
    """the use sits inside a comprehension / lambda element (evaluated repeatedly or lazily)"""
    for h in hdrs:
        for n in ast.walk(h):
            if isinstance(n, (ast.ListComp, ast.SetComp, ast.DictComp, ast.GeneratorExp)):
                inner = [n.elt] if not isinstance(n, ast.DictComp) else [n.key, n.value]
                inner += [c for g in n.generators for c in g.ifs] + [g.iter for g in n.generators[1:]]
                for x in inner:
                    if any(u is use for u in ast.walk(x)):
                        return True
            if isinstance(n, ast.Lambda) and any(u is use for u in ast.walk(n.body)):
                return True
    return False


def _replace(root, old, new):
    for parent in ast.walk(root):
        for fld, val in ast.iter_fields(parent):
            if val is old:
                setattr(parent, fld, copy.deepcopy(new))
                return True
            if isinstance(val, list):
                for i, x in enumerate(val):
                    if x is old:
                        val[i] = copy.deepcopy(new)
                        return True
    return False


def _pure_expr(e):
    """call-free expression over local names and constants (comparisons, arithmetic)"""
    return _stable_local(e) and not isinstance(e, ast.Name)


def _mutated_names(fnode):
    """names that are mutated in place somewhere (subscript/attribute store, augmented assignment, mutating method)"""
    out = set()
    for n in ast.walk(fnode):
        if isinstance(n, (ast.Subscript, ast.Attribute)) and isinstance(n.ctx, ast.Store):
            b = n.value
            while isinstance(b, (ast.Subscript, ast.Attribute)):
                b = b.value
            if isinstance(b, ast.Name):
                out.add(b.id)
        if isinstance(n, ast.AugAssign):
            b = n.target
            while isinstance(b, (ast.Subscript, ast.Attribute)):
                b = b.value
            if isinstance(b, ast.Name):
                out.add(b.id)
        if isinstance(n, ast.Call) and isinstance(n.func, ast.Attribute) and n.func.attr in ("append", "extend", "insert", "remove", "pop", "sort", "update", "fill", "clear", "add"):
            b = n.func.value
            while isinstance(b, (ast.Subscript, ast.Attribute)):
                b = b.value
            if isinstance(b, ast.Name):
                out.add(b.id)
    return out


def _type_test(e):
    """isinstance / callable tests on plain names, combined with and / or / not: depends only on which objects the names are
    bound to, which no call can change"""
    if isinstance(e, ast.BoolOp):
        return all(_type_test(v) for v in e.values)
    if isinstance(e, ast.UnaryOp) and isinstance(e.op, ast.Not):
        return _type_test(e.operand)
    if isinstance(e, ast.Call) and isinstance(e.func, ast.Name) and e.func.id in ("isinstance", "callable", "issubclass") and not e.keywords \
            and e.args and isinstance(e.args[0], ast.Name):
        return all(isinstance(n, (ast.Name, ast.Attribute, ast.Tuple, ast.expr_context)) for a in e.args[1:] for n in ast.walk(a))
    return False


def _subst_type_tests(fnode):
    """t = isinstance(x, A) or ...  used anywhere later: substituted when x and t are bound exactly once (parameters count)"""
    params = {a.arg for a in fnode.args.posonlyargs + fnode.args.args + fnode.args.kwonlyargs}
    changed = True
    rounds = 0
    while changed and rounds < 10:
        changed = False
        rounds += 1
        for block in _blocks(fnode):
            for s in list(block):
                if isinstance(s, ast.Assign) and len(s.targets) == 1 and isinstance(s.targets[0], ast.Name) and _type_test(s.value):
                    name = s.targets[0].id
                    if name in params or len(_stores(fnode, name)) != 1:
                        continue
                    subjects = {n.id for n in ast.walk(s.value) if isinstance(n, ast.Name) and isinstance(n.ctx, ast.Load)} - {"isinstance", "callable", "issubclass"}
                    locals_rebound = [o for o in subjects if len(_stores(fnode, o)) > (0 if o in params else 1)]
                    if locals_rebound:
                        continue
                    uses = _uses(fnode, name)
                    later = [u for st in block[block.index(s) + 1:] for u in _uses(st, name)]
                    if not uses or len(later) != len(uses):
                        continue
                    for u in uses:
                        _replace(fnode, u, s.value)
                    block.remove(s)
                    changed = True
                    break
            if changed:
                break
    return fnode


def _subst_pure_multiuse(fnode):
    """x = <call-free expr over never-reassigned, never-mutated names>  used several times -> substituted everywhere"""
    params = {a.arg for a in fnode.args.posonlyargs + fnode.args.args + fnode.args.kwonlyargs}
    changed = True
    rounds = 0
    while changed and rounds < 20:
        changed = False
        rounds += 1
        mutated = _mutated_names(fnode)
        for block in _blocks(fnode):
            for i, s in enumerate(list(block)):
                small_display = isinstance(s, ast.Assign) and isinstance(s.value, ast.List) and 1 <= len(s.value.elts) <= 3 \
                    and all(isinstance(e, (ast.Name, ast.Constant)) for e in s.value.elts)
                if isinstance(s, ast.Assign) and len(s.targets) == 1 and isinstance(s.targets[0], ast.Name) and (_pure_expr(s.value) or small_display):
                    name = s.targets[0].id
                    if name in params or name in mutated or len(_stores(fnode, name)) != 1:
                        continue
                    if small_display and any(isinstance(p_, (ast.Return, ast.Yield, ast.Attribute, ast.Subscript, ast.Compare, ast.Assign, ast.Starred, ast.keyword))
                                             for p_ in ast.walk(fnode) for ch in ast.iter_child_nodes(p_) if isinstance(ch, ast.Name) and ch.id == name and isinstance(ch.ctx, ast.Load)):
                        continue   # a small list `[x]` kept in a local: only when it is merely read as an operand / argument (never stored, returned, compared)
                    operands = {n.id for n in ast.walk(s.value) if isinstance(n, ast.Name)}
                    if any((len(_stores(fnode, o)) > (0 if o in params else 1)) or o in mutated for o in operands if o != "self"):
                        continue
                    if any(isinstance(n, ast.Attribute) and isinstance(n.ctx, ast.Load) and _attr_written(fnode, n) for n in ast.walk(s.value)):
                        continue
                    uses = _uses(fnode, name)
                    # all uses must come after the definition in the same or nested blocks of this block
                    later = [u for st in block[block.index(s) + 1:] for u in _uses(st, name)]
                    if not uses or len(later) != len(uses):
                        continue
                    for u in uses:
                        _replace(fnode, u, s.value)
                    block.remove(s)
                    changed = True
                    break
            if changed:
                break
    return fnode


PROPERTY_NAMES = set()  # filled by refswap: attribute names that are properties somewhere (a store may run a setter)


def _store_load_forward(fnode):
    """self.A = n ; ... self.A ...   ->   ... n ...   in the statements that follow in the same block, up to the first
    statement that could re-bind self.A or n (a store to an attribute A, to n, or a call that is handed `self`)"""
    for block in _blocks(fnode):
        for i, s in enumerate(block):
            if not (isinstance(s, ast.Assign) and len(s.targets) == 1 and isinstance(s.targets[0], ast.Attribute)
                    and isinstance(s.targets[0].value, ast.Name) and s.targets[0].value.id == "self" and isinstance(s.value, ast.Name)):
                continue
            attr, n = s.targets[0].attr, s.value.id
            # a store to a property runs its setter: known per class when refswap marked the method, else by name anywhere
            if attr in getattr(fnode, "_props", PROPERTY_NAMES) or attr.startswith("__"):
                continue
            # classes with __setattr__/__getattr__ hooks (Config) intercept attribute traffic
            if "*" in PROPERTY_NAMES and _owner_has_hooks(fnode):
                continue
            for st in block[i + 1:]:
                loads = [x for x in ast.walk(st) if isinstance(x, ast.Attribute) and isinstance(x.ctx, ast.Load) and x.attr == attr
                         and isinstance(x.value, ast.Name) and x.value.id == "self"]
                stop = False
                for x in ast.walk(st):
                    if isinstance(x, ast.Attribute) and isinstance(x.ctx, (ast.Store, ast.Del)) and x.attr == attr:
                        stop = True
                    if isinstance(x, ast.Name) and isinstance(x.ctx, (ast.Store, ast.Del)) and x.id == n:
                        stop = True
                    if isinstance(x, (ast.For, ast.While, ast.Try, ast.With, ast.FunctionDef, ast.Lambda)):
                        stop = True
                # calls that are handed `self` (directly or as the receiver of a method) may re-bind the attribute: loads that are
                # evaluated BEFORE such a call completes (e.g. its own arguments) are still forwarded, later ones are not
                risky = [x for x in ast.walk(st) if isinstance(x, ast.Call)
                         and any(isinstance(y, ast.Name) and y.id == "self" and not any(y is ld.value for ld in loads) for y in ast.walk(x))]
                if stop:
                    break
                if risky and isinstance(st, (ast.If, ast.For, ast.While, ast.Try, ast.With)):
                    break
                order = list(_in_order(st))
                pos = {id(x): k for k, x in enumerate(order) if not isinstance(x, (ast.expr_context, ast.operator, ast.cmpop, ast.boolop, ast.unaryop))}
                done_after = None
                for x in risky:
                    # a call completes after everything inside it has been evaluated
                    inside = [pos[id(y)] for y in ast.walk(x) if id(y) in pos]
                    end = max(inside) if inside else pos.get(id(x), 0)
                    done_after = end if done_after is None else min(done_after, end)
                forwarded_all = True
                for ld in loads:
                    if done_after is not None and pos.get(id(ld), 0) > done_after:
                        forwarded_all = False
                        continue
                    _replace(st, ld, ast.Name(id=n, ctx=ast.Load()))
                if risky or not forwarded_all:
                    break
    return fnode


def _owner_has_hooks(fnode):
    """refswap marks the methods of classes with __setattr__/__getattr__ hooks"""
    return getattr(fnode, "_hooked", False)


def _attr_chain(e):
    names = []
    while isinstance(e, ast.Attribute):
        names.append(e.attr)
        e = e.value
    return (e.id, names) if isinstance(e, ast.Name) and names else None


def _pure_ctor(c):
    """`Intercept()`: a constructor of a program class called without arguments creates a fresh value object"""
    return isinstance(c, ast.Call) and isinstance(c.func, ast.Name) and c.func.id[:1].isupper() and not c.args and not c.keywords


def _pure_read(e):
    """(names, attribute names) read by an expression that only reads: attribute chains, constants, fresh value objects,
    comparisons / membership tests and boolean combinations of those; None otherwise"""
    if isinstance(e, ast.Constant):
        return set(), set()
    if isinstance(e, ast.Name):
        return {e.id}, set()
    if isinstance(e, ast.Attribute):
        r = _pure_read(e.value)
        return None if r is None else (r[0], r[1] | {e.attr})
    if _pure_ctor(e):
        return set(), set()
    parts = None
    if isinstance(e, ast.Compare) and all(isinstance(o, (ast.In, ast.NotIn, ast.Is, ast.IsNot, ast.Eq, ast.NotEq)) for o in e.ops):
        parts = [e.left] + list(e.comparators)
    elif isinstance(e, ast.BoolOp):
        parts = list(e.values)
    elif isinstance(e, ast.UnaryOp) and isinstance(e.op, ast.Not):
        parts = [e.operand]
    if parts is None:
        return None
    names, attrs = set(), set()
    for p_ in parts:
        r = _pure_read(p_)
        if r is None:
            return None
        names |= r[0]
        attrs |= r[1]
    return names, attrs


def _subst_attr_chain(fnode):
    """t = a.b.c used several times in the straight-line statements that follow: substituted when nothing in between can
    re-bind a, .b or .c (no calls other than pure builtins, no store to those attribute names or to a)"""
    params = {a.arg for a in fnode.args.posonlyargs + fnode.args.args + fnode.args.kwonlyargs}
    changed = True
    rounds = 0
    while changed and rounds < 20:
        changed = False
        rounds += 1
        for block in _blocks(fnode):
            for i, s in enumerate(block):
                if not (isinstance(s, ast.Assign) and len(s.targets) == 1 and isinstance(s.targets[0], ast.Name)):
                    continue
                ch = _attr_chain(s.value)
                if ch is None:
                    pr = _pure_read(s.value)
                    if pr is not None and pr[1]:
                        ch = ("|".join(sorted(pr[0])), sorted(pr[1]), sorted(pr[0]))
                name = s.targets[0].id
                if ch is None or name in params or len(_stores(fnode, name)) != 1:
                    continue
                uses = _uses(fnode, name)
                if not uses:
                    continue
                last = None
                for j in range(i + 1, len(block)):
                    if _uses(block[j], name):
                        last = j
                inside = [u for st in block[i + 1:(last or i) + 1] for u in _uses(st, name)]
                if last is None or len(inside) != len(uses):
                    continue
                ok = True
                order = [x for st in block[i + 1:last + 1] for x in _in_order(st)]
                upos = [k for k, x in enumerate(order) if any(x is u for u in uses)]
                lastpos = max(upos)
                # arms: which (if-statement, arm) each node sits in - nodes in different arms of one `if` are never both executed
                arms = {}
                for st in block[i + 1:last + 1]:
                    for iff in ast.walk(st):
                        if isinstance(iff, ast.If):
                            for tag, arm in (("b", iff.body), ("e", iff.orelse)):
                                for a_st in arm:
                                    for y in ast.walk(a_st):
                                        arms.setdefault(id(y), set()).add((id(iff), tag))

                def exclusive(a, b):
                    A, B = arms.get(id(a), set()), arms.get(id(b), set())
                    return any((i_, "b") in A and (i_, "e") in B or (i_, "e") in A and (i_, "b") in B for i_ in {x_[0] for x_ in A | B})

                for k, x in enumerate(order[:lastpos]):
                    if isinstance(x, ast.Call) and not (isinstance(x.func, ast.Name) and x.func.id in PURE_BUILTINS) and not _pure_ctor(x):
                        # a call that completes before some later use of the temporary
                        inside = {id(y) for y in ast.walk(x)}
                        if any(id(order[p]) not in inside and not exclusive(x, order[p]) for p in upos if p > k):
                            ok = False
                    if isinstance(x, ast.Attribute) and isinstance(x.ctx, (ast.Store, ast.Del)) and x.attr in ch[1]:
                        ok = False
                    if isinstance(x, ast.Name) and isinstance(x.ctx, (ast.Store, ast.Del)) and x.id in (ch[2] if len(ch) > 2 else [ch[0]]):
                        ok = False
                    if isinstance(x, (ast.For, ast.While, ast.Lambda, ast.ListComp, ast.GeneratorExp, ast.SetComp, ast.DictComp, ast.Try, ast.With)):
                        ok = False
                if not ok:
                    continue
                for u in uses:
                    _replace(fnode, u, s.value)
                del block[i]
                changed = True
                break
            if changed:
                break
    return fnode


def _attr_written(fnode, attr_node):
    txt = unparse(attr_node)
    for n in ast.walk(fnode):
        if isinstance(n, ast.Attribute) and isinstance(n.ctx, ast.Store) and unparse(n) == txt:
            return True
    return False


def _dead_stores(fnode):
    """drop `x = <pure-ish expr>` when x is never read afterwards (e.g. values that only fed a message)"""
    changed = True
    while changed:
        changed = False
        order = [n for n in _in_order(fnode)]
        pos = {id(n): i for i, n in enumerate(order)}
        loops = [n for n in order if isinstance(n, (ast.For, ast.While))]
        for block in _blocks(fnode):
            for s in list(block):
                if isinstance(s, ast.Assign) and len(s.targets) == 1 and isinstance(s.targets[0], ast.Name):
                    name = s.targets[0].id
                    if any(any(s is x for x in ast.walk(lp)) for lp in loops):
                        continue
                    end = max(pos[id(n)] for n in ast.walk(s) if not isinstance(n, (ast.expr_context, ast.operator, ast.cmpop, ast.boolop, ast.unaryop)))
                    aug = {id(n.target) for n in order if isinstance(n, ast.AugAssign) and isinstance(n.target, ast.Name)}
                    later = [n for n in order if isinstance(n, ast.Name) and n.id == name and (isinstance(n.ctx, ast.Load) or id(n) in aug) and pos[id(n)] > end]
                    nested_use = any(isinstance(n, (ast.FunctionDef, ast.Lambda)) and n is not fnode and _uses(n, name) for n in order)
                    if not later and not nested_use and not any(isinstance(n, (ast.Call,)) and not _harmless_call(n) for n in ast.walk(s.value)):
                        block.remove(s)
                        if not block:
                            block.append(ast.Pass())
                        changed = True
    return fnode


def _harmless_call(c):
    return dotted(c.func) in ("str", "int", "float", "len", "list", "tuple", "sorted", "set", "repr", "isinstance", "type") or \
        (isinstance(c.func, ast.Attribute) and c.func.attr in ("join", "format", "tolist", "copy", "keys", "values", "items"))


def _webs(fnode):
    """rename every def-use web of a local to its own name (a variable re-used for an unrelated value is split)"""
    from .cfg import CFG
    from .dataflow import _stmt_defs

    try:
        c = CFG(fnode)
    except Exception:  # noqa: BLE001
        return fnode
    params = [a.arg for a in fnode.args.posonlyargs + fnode.args.args + fnode.args.kwonlyargs]
    if fnode.args.vararg:
        params.append(fnode.args.vararg.arg)
    if fnode.args.kwarg:
        params.append(fnode.args.kwarg.arg)
    # reaching definitions at statement granularity
    gen = {n: (_stmt_defs(c.ast[n]) if n in c.ast else set()) for n in c.nodes()}
    IN = {n: {} for n in c.nodes()}
    OUT = {n: {} for n in c.nodes()}
    OUT[0] = {p: frozenset([("param", p)]) for p in params}
    changed = True
    while changed:
        changed = False
        for n in c.nodes():
            if n == 0:
                continue
            acc = {}
            for p in c.pred[n]:
                for v, ds in OUT[p].items():
                    acc[v] = acc.get(v, frozenset()) | ds
            IN[n] = acc
            out = dict(acc)
            for v in gen[n]:
                out[v] = frozenset([(n, v)])
            if out != OUT[n]:
                OUT[n] = out
                changed = True
    parent = {}

    def find(x):
        parent.setdefault(x, x)
        while parent[x] != x:
            parent[x] = parent[parent[x]]
            x = parent[x]
        return x

    def union(a, b):
        ra, rb = find(a), find(b)
        if ra != rb:
            parent[rb] = ra

    comp_vars = set()
    for n in ast.walk(fnode):
        if isinstance(n, (ast.ListComp, ast.SetComp, ast.DictComp, ast.GeneratorExp)):
            for g in n.generators:
                for t in ast.walk(g.target):
                    if isinstance(t, ast.Name):
                        comp_vars.add(id(t))
    use_web = {}
    for n in c.nodes():
        node = c.ast.get(n)
        if node is None:
            continue
        hdr_nodes = _node_names(c, n, node)
        for nm in hdr_nodes:
            if isinstance(nm.ctx, ast.Load):
                defs = IN[n].get(nm.id)
                if not defs:
                    continue
                ds = sorted(defs, key=str)
                for d in ds[1:]:
                    union(ds[0], d)
                use_web[id(nm)] = ds[0]
        if isinstance(node, ast.AugAssign) and isinstance(node.target, ast.Name):
            # x += e reads x: the new definition continues the web of the definitions that reach it
            for d in IN[n].get(node.target.id, ()):
                union((n, node.target.id), d)
    # assign names to webs
    names = {}
    counter = {p: 1 for p in params}
    for n in sorted(c.nodes()):
        for v in sorted(gen[n]):
            find((n, v))
    for p in params:
        find(("param", p))
    for d in list(parent):
        r = find(d)
        if r not in names:
            members = [x for x in parent if find(x) == r]
            if any(m[0] == "param" for m in members):
                names[r] = [m for m in members if m[0] == "param"][0][1]
            else:
                base = members[0][1]
                k = counter.get(base, 0)
                counter[base] = k + 1
                names[r] = base if k == 0 else f"{base}__w{k}"
    # apply
    for n in c.nodes():
        node = c.ast.get(n)
        if node is None:
            continue
        for nm in _node_names(c, n, node):
            if id(nm) in comp_vars:
                continue
            if isinstance(nm.ctx, ast.Load):
                w = use_web.get(id(nm))
                if w is not None:
                    nm.id = names[find(w)]
            elif isinstance(nm.ctx, (ast.Store, ast.Del)) and (n, nm.id) in parent:
                nm.id = names[find((n, nm.id))]
    return fnode


def _node_names(c, n, node):
    """Name nodes that belong to CFG node n (header of compound statements only)"""
    if isinstance(node, ast.If):
        roots = [node.test]
    elif isinstance(node, ast.While):
        roots = [node.test]
    elif isinstance(node, ast.For):
        roots = [node.iter, node.target]
    elif isinstance(node, ast.With):
        roots = [i.context_expr for i in node.items] + [i.optional_vars for i in node.items if i.optional_vars is not None]
    elif isinstance(node, (ast.Try, ast.FunctionDef, ast.ClassDef)):
        roots = []
    elif isinstance(node, ast.ExceptHandler):
        roots = [node.type] if node.type is not None else []
    else:
        roots = [node]
    out = []
    for r in roots:
        for x in ast.walk(r):
            if isinstance(x, ast.Name):
                out.append(x)
    return out


def _empty_arms(stmts):
    """`else: pass` is dropped; `if c: pass else: B` becomes `if not c: B`; an if with no statements at all and a
    side-effect free test disappears"""
    out = []
    for s in stmts:
        _recurse(s, _empty_arms)
        if isinstance(s, ast.If):
            if s.orelse and all(isinstance(x, ast.Pass) for x in s.orelse):
                s.orelse = []
            if all(isinstance(x, ast.Pass) for x in s.body) and s.orelse:
                s.test, s.body, s.orelse = _negate_full(s.test), s.orelse, []
            if all(isinstance(x, ast.Pass) for x in s.body) and not s.orelse and _readonly_expr(s.test):
                continue
        out.append(s)
    return out or ([ast.Pass()] if stmts else [])


def _or_default(stmts):
    """x = a or b  (a a plain name)  ->  if a: x = a else: x = b"""
    out = []
    for s in stmts:
        _recurse(s, _or_default)
        if isinstance(s, ast.Assign) and len(s.targets) == 1 and isinstance(s.targets[0], ast.Name) and isinstance(s.value, ast.BoolOp) \
                and isinstance(s.value.op, ast.Or) and len(s.value.values) == 2 and isinstance(s.value.values[0], ast.Name):
            a, b = s.value.values
            out.append(ast.copy_location(ast.If(test=copy.deepcopy(a),
                                                body=[ast.Assign(targets=[copy.deepcopy(s.targets[0])], value=copy.deepcopy(a))],
                                                orelse=[ast.Assign(targets=[copy.deepcopy(s.targets[0])], value=b)]), s))
            continue
        out.append(s)
    return out


def _unroll_literal_comprehensions(fnode):
    """[E(v) for v in (a1, ..., ak) if C(v)]  over a literal tuple/list of at most 6 elements  ->
    ([E(a1)] if C(a1) else []) + ... ; without a filter simply [E(a1), ..., E(ak)].  The elements are evaluated in the same
    order; each ai must be a name / attribute chain / constant / tuple of those (substituting it several times is harmless)."""

    def simple(e):
        if isinstance(e, (ast.Name, ast.Constant)):
            return True
        if isinstance(e, ast.Attribute):
            return simple(e.value)
        if isinstance(e, ast.Tuple):
            return all(simple(x) for x in e.elts)
        return False

    class T(ast.NodeTransformer):
        def visit_ListComp(self, node):
            self.generic_visit(node)
            if len(node.generators) != 1:
                return node
            g = node.generators[0]
            if not (isinstance(g.iter, (ast.Tuple, ast.List)) and 1 <= len(g.iter.elts) <= 6 and all(simple(e) for e in g.iter.elts)):
                return node
            if isinstance(g.target, ast.Name):
                names = [g.target.id]
            elif isinstance(g.target, ast.Tuple) and all(isinstance(x, ast.Name) for x in g.target.elts):
                names = [x.id for x in g.target.elts]
                if not all(isinstance(e, ast.Tuple) and len(e.elts) == len(names) for e in g.iter.elts):
                    return node
            else:
                return node
            pieces = []
            for e in g.iter.elts:
                vals = [e] if isinstance(g.target, ast.Name) else list(e.elts)
                m = dict(zip(names, vals))

                class S(ast.NodeTransformer):
                    def visit_Name(s_, n):
                        if isinstance(n.ctx, ast.Load) and n.id in m:
                            return copy.deepcopy(m[n.id])
                        return n

                elt = S().visit(copy.deepcopy(node.elt))
                conds = [S().visit(copy.deepcopy(c)) for c in g.ifs]
                item = ast.List(elts=[elt], ctx=ast.Load())
                if conds:
                    test = conds[0] if len(conds) == 1 else ast.BoolOp(op=ast.And(), values=conds)
                    item = ast.IfExp(test=test, body=item, orelse=ast.List(elts=[], ctx=ast.Load()))
                pieces.append(item)
            out = pieces[0]
            for p_ in pieces[1:]:
                if isinstance(out, ast.List) and isinstance(p_, ast.List):
                    out = ast.List(elts=out.elts + p_.elts, ctx=ast.Load())
                else:
                    out = ast.BinOp(left=out, op=ast.Add(), right=p_)
            return ast.copy_location(out, node)

    return T().visit(fnode)


def _append_seq_to_concat(stmts):
    """x = [] ; x.append(e1) ; if c: x.append(e2) ; ...   ->   x = [e1] + ([e2] if c else []) + ...   (same evaluation order)"""
    for s in stmts:
        _recurse(s, _append_seq_to_concat)
    i = 0
    while i < len(stmts):
        s = stmts[i]
        if isinstance(s, ast.Assign) and len(s.targets) == 1 and isinstance(s.targets[0], ast.Name) and isinstance(s.value, ast.List) and not s.value.elts:
            x = s.targets[0].id
            pieces = []
            j = i + 1

            def app(st):
                if isinstance(st, ast.Expr) and isinstance(st.value, ast.Call) and isinstance(st.value.func, ast.Attribute) and st.value.func.attr == "append" \
                        and isinstance(st.value.func.value, ast.Name) and st.value.func.value.id == x and len(st.value.args) == 1 and not st.value.keywords \
                        and not any(isinstance(n, ast.Name) and n.id == x for n in ast.walk(st.value.args[0])):
                    return st.value.args[0]
                return None

            while j < len(stmts):
                st = stmts[j]
                a = app(st)
                if a is not None:
                    pieces.append(ast.List(elts=[a], ctx=ast.Load()))
                elif isinstance(st, ast.If) and not st.orelse and len(st.body) == 1 and app(st.body[0]) is not None \
                        and not any(isinstance(n, ast.Name) and n.id == x for n in ast.walk(st.test)):
                    pieces.append(ast.IfExp(test=st.test, body=ast.List(elts=[app(st.body[0])], ctx=ast.Load()), orelse=ast.List(elts=[], ctx=ast.Load())))
                else:
                    break
                j += 1
            if len(pieces) >= 2 and any(isinstance(p_, ast.IfExp) for p_ in pieces):
                out = pieces[0]
                for p_ in pieces[1:]:
                    if isinstance(out, ast.List) and isinstance(p_, ast.List):
                        out = ast.List(elts=out.elts + p_.elts, ctx=ast.Load())
                    else:
                        out = ast.BinOp(left=out, op=ast.Add(), right=p_)
                stmts[i:j] = [ast.copy_location(ast.Assign(targets=s.targets, value=out), s)]
        i += 1
    return stmts


def _extend_to_concat(stmts):
    """x = [..] ; x.extend(<comprehension / display>)   ->   x = [..] + [..]   (x is a fresh list both times)"""
    out = []
    i = 0
    for s in stmts:
        _recurse(s, _extend_to_concat)
    while i < len(stmts):
        s = stmts[i]
        if i + 1 < len(stmts) and isinstance(s, ast.Assign) and len(s.targets) == 1 and isinstance(s.targets[0], ast.Name) \
                and (isinstance(s.value, (ast.ListComp, ast.List)) or (isinstance(s.value, ast.BinOp) and isinstance(s.value.op, ast.Add))):
            n = stmts[i + 1]
            x = s.targets[0].id
            if isinstance(n, ast.Expr) and isinstance(n.value, ast.Call) and isinstance(n.value.func, ast.Attribute) and n.value.func.attr == "extend" \
                    and isinstance(n.value.func.value, ast.Name) and n.value.func.value.id == x and len(n.value.args) == 1 and not n.value.keywords:
                e = n.value.args[0]
                if isinstance(e, ast.GeneratorExp):
                    e = ast.ListComp(elt=e.elt, generators=e.generators)
                if isinstance(e, (ast.ListComp, ast.List)) and not any(isinstance(y, ast.Name) and y.id == x for y in ast.walk(e)) \
                        and _is_list_expr(s.value):
                    merged = ast.copy_location(ast.Assign(targets=s.targets, value=ast.BinOp(left=s.value, op=ast.Add(), right=e)), s)
                    stmts = stmts[:i] + [merged] + stmts[i + 2:]
                    continue
        i += 1
    return stmts


def _is_list_expr(e):
    if isinstance(e, (ast.ListComp, ast.List)):
        return True
    return isinstance(e, ast.BinOp) and isinstance(e.op, ast.Add) and _is_list_expr(e.left) and _is_list_expr(e.right)


def _unreachable(stmts):
    out = []
    for s in stmts:
        _recurse(s, _unreachable)
        # a test that is a literal truth value (a flag parameter of an inlined helper): only the live arm remains
        if isinstance(s, ast.If) and isinstance(s.test, ast.Constant) and isinstance(s.test.value, (bool, type(None))):
            live = s.body if s.test.value else s.orelse
            stop = False
            for x in live:
                out.append(x)
                if isinstance(x, (ast.Return, ast.Raise, ast.Continue, ast.Break)):
                    stop = True
                    break
            if stop:
                break
            continue
        out.append(s)
        if isinstance(s, (ast.Return, ast.Raise, ast.Continue, ast.Break)):
            break
    return out


def _tuple_split(stmts):
    """a, b = (x, y)  ->  a = x; b = y   when no later right-hand side reads an earlier target"""
    out = []
    for s in stmts:
        _recurse(s, _tuple_split)
        if isinstance(s, ast.Assign) and len(s.targets) == 1 and isinstance(s.targets[0], (ast.Tuple, ast.List)) and isinstance(s.value, (ast.Tuple, ast.List)) \
                and len(s.targets[0].elts) == len(s.value.elts) and all(isinstance(t, ast.Name) for t in s.targets[0].elts) \
                and not any(isinstance(v, ast.Starred) for v in s.value.elts):
            tg = [t.id for t in s.targets[0].elts]
            ok = True
            for j, v in enumerate(s.value.elts):
                reads = {n.id for n in ast.walk(v) if isinstance(n, ast.Name)}
                if reads & set(tg[:j]):
                    ok = False
                # a call in a later element could observe nothing of the earlier (local) targets: fine
            if ok and len(set(tg)) == len(tg):
                for t, v in zip(s.targets[0].elts, s.value.elts):
                    out.append(ast.copy_location(ast.Assign(targets=[t], value=v), s))
                continue
        out.append(s)
    return out


def _try_rethrow(stmts):
    """`except X as e: raise e` / `except X: raise` handlers do nothing; a try without handlers is its body"""
    out = []
    for s in stmts:
        _recurse(s, _try_rethrow)
        if isinstance(s, ast.Try) and not s.finalbody and not s.orelse:
            while s.handlers:
                h = s.handlers[-1]
                b = h.body
                if len(b) == 1 and isinstance(b[0], ast.Raise) and b[0].cause is None and \
                        (b[0].exc is None or (isinstance(b[0].exc, ast.Name) and b[0].exc.id == h.name)):
                    s.handlers = s.handlers[:-1]
                else:
                    break
            if not s.handlers:
                out.extend(s.body)
                continue
        out.append(s)
    return out


def _tail_dup(stmts):
    """`if ...: A [else: B]` ; `return e`  as the last two statements  ->  the return is copied to the end of every arm that
    falls through (recursively); for a `try` only `return <name/constant>` is pushed (it cannot raise)"""
    for s in stmts:
        _recurse(s, _tail_dup)
    # `if ..: ...; t = a  else: ...; t = b` ; `S(t)`  ->  S copied into the arms (then t = a; S(t) folds to S(a))
    k = 0
    while k + 1 < len(stmts):
        prev, nxt = stmts[k], stmts[k + 1]
        if isinstance(prev, ast.If) and isinstance(nxt, (ast.Assign, ast.Expr)) and not isinstance(nxt, ast.Return):
            t = _common_tail_target(prev)
            if t is not None and len([u for h in _header(nxt) for u in _uses(h, t)]) == 1 \
                    and not any(_uses(x, t) for x in stmts[k + 2:]) and not _stores(nxt, t):
                _push_into(prev, nxt)
                del stmts[k + 1]
                continue
        k += 1
    if len(stmts) >= 2 and isinstance(stmts[-1], ast.Return):
        ret, prev = stmts[-1], stmts[-2]
        if isinstance(prev, ast.If):
            _push_into(prev, ret)
            return stmts[:-1]
        if isinstance(prev, ast.Try) and not prev.finalbody and not prev.orelse and (ret.value is None or isinstance(ret.value, (ast.Name, ast.Constant))):
            for arm in [prev.body] + [h.body for h in prev.handlers]:
                _push_arm(arm, ret)
            return stmts[:-1]
    return stmts


def _common_tail_target(ifnode):
    """the local name every fall-through arm assigns last (None if they do not agree)"""
    names = set()

    def arm(a):
        if _terminates(a):
            return True
        if not a:
            return False
        last = a[-1]
        if isinstance(last, ast.Assign) and len(last.targets) == 1 and isinstance(last.targets[0], ast.Name):
            names.add(last.targets[0].id)
            return True
        if isinstance(last, ast.If) and last.orelse:
            return arm(last.body) and arm(last.orelse)
        return False

    if arm(ifnode.body) and (arm(ifnode.orelse) if ifnode.orelse else True) and len(names) == 1:
        return next(iter(names))
    return None


def _push_arm(arm, ret):
    if _terminates(arm):
        return
    if arm and isinstance(arm[-1], ast.If):
        _push_into(arm[-1], ret)
        return
    if len(arm) == 1 and isinstance(arm[0], ast.Pass):
        arm.clear()
    arm.append(copy.deepcopy(ret))


def _push_into(ifnode, ret):
    _push_arm(ifnode.body, ret)
    if not ifnode.orelse:
        ifnode.orelse = [copy.deepcopy(ret)]
    else:
        _push_arm(ifnode.orelse, ret)


def _liveness(fnode):
    from .cfg import CFG
    from .dataflow import _stmt_defs

    c = CFG(fnode)
    use, dfn = {}, {}
    for n in c.nodes():
        node = c.ast.get(n)
        if node is None:
            use[n], dfn[n] = set(), set()
            continue
        use[n] = {x.id for x in _node_names(c, n, node) if isinstance(x.ctx, ast.Load)}
        dfn[n] = set(_stmt_defs(node))
        # nested function bodies / lambdas read outer names lazily: count as uses here
        if isinstance(node, (ast.FunctionDef,)):
            use[n] |= {x.id for x in ast.walk(node) if isinstance(x, ast.Name) and isinstance(x.ctx, ast.Load)}
    live_in = {n: set() for n in c.nodes()}
    live_out = {n: set() for n in c.nodes()}
    changed = True
    while changed:
        changed = False
        for n in sorted(c.nodes(), reverse=True):
            out = set()
            for m in c.succ[n]:
                out |= live_in[m]
            # an AugAssign reads its target as well
            node = c.ast.get(n)
            extra = {node.target.id} if isinstance(node, ast.AugAssign) and isinstance(node.target, ast.Name) else set()
            inn = use[n] | extra | (out - dfn[n])
            if out != live_out[n] or inn != live_in[n]:
                live_out[n], live_in[n] = out, inn
                changed = True
    return c, dfn, live_out


def _alias_coalesce(fnode):
    """`b = a` (plain name copy): a and b can share one name when their live ranges do not interfere (b is not defined
    where a is live and vice versa, the copy itself excepted) - standard copy coalescing on the statement CFG"""
    params = {a.arg for a in fnode.args.posonlyargs + fnode.args.args + fnode.args.kwonlyargs}
    for _ in range(20):
        try:
            c, dfn, live_out = _liveness(fnode)
        except Exception:  # noqa: BLE001
            return fnode
        done = False
        for n in sorted(c.nodes()):
            st = c.ast.get(n)
            if not (isinstance(st, ast.Assign) and len(st.targets) == 1 and isinstance(st.targets[0], ast.Name) and isinstance(st.value, ast.Name)):
                continue
            b, a = st.targets[0].id, st.value.id
            if a == b:
                _remove_stmt(fnode, st)
                done = True
                break
            if b in params or a == "self" or b == "self":
                continue
            if any(isinstance(x, (ast.FunctionDef, ast.Lambda)) and x is not fnode and (_uses(x, a) or _uses(x, b)) for x in ast.walk(fnode)):
                continue
            interfere = False
            for m in c.nodes():
                if m == n:
                    continue
                if b in dfn[m] and a in live_out[m]:
                    interfere = True
                if a in dfn[m] and b in live_out[m]:
                    interfere = True
            if a in live_out[n] and any(b in dfn[m] for m in c.nodes() if m != n):
                # a stays live after the copy and b is re-bound elsewhere: keep it simple
                interfere = True
            if interfere:
                continue
            for x in ast.walk(fnode):
                if isinstance(x, ast.Name) and x.id == b:
                    x.id = a
            _remove_stmt(fnode, st)
            done = True
            break
        if not done:
            break
    return fnode


def _remove_stmt(fnode, st):
    for block in _blocks(fnode):
        for k, x in enumerate(block):
            if x is st:
                del block[k]
                if not block:
                    block.append(ast.Pass())
                return True
    return False


def _phi_copies(stmts):
    """`if c: v = e  else: v = w` where w is dead afterwards is the same as `if c: w = e` with w continuing: rename v -> w.
    Implemented for the common shape only: else-arm is exactly the copy."""
    return stmts


PURE_LIB_PREFIXES = ("np.", "pd.", "itertools.", "linalg.", "math.", "functools.", "operator.")
IMPURE_LIB = {"fill_diagonal", "put", "place", "copyto", "putmask", "seterr", "set_option", "shuffle", "seed", "save", "savetxt", "load",
              "read_csv", "reset_option", "set_printoptions"}


def _pure_library_call(c):
    """numpy / pandas / itertools constructors and functions: they build new values and do not touch program objects"""
    d = dotted(c.func) or ""
    return d.startswith(PURE_LIB_PREFIXES) and d.split(".")[-1] not in IMPURE_LIB and ".random." not in d


def _effects(s, local_names):
    """(reads, writes, attr reads, attr writes, heap write?, call?, control?) of a statement, conservatively"""
    R, W, AR, AW = set(), set(), set(), set()
    heap = call = ctrl = False
    for n in ast.walk(s):
        if isinstance(n, ast.Name):
            (W if isinstance(n.ctx, (ast.Store, ast.Del)) else R).add(n.id)
        elif isinstance(n, ast.Attribute):
            (AW if isinstance(n.ctx, (ast.Store, ast.Del)) else AR).add(n.attr)
        elif isinstance(n, ast.Subscript) and isinstance(n.ctx, (ast.Store, ast.Del)):
            heap = True
        elif isinstance(n, ast.Call) and not (isinstance(n.func, ast.Name) and n.func.id in PURE_BUILTINS) and not _pure_library_call(n):
            call = True
        elif isinstance(n, (ast.Return, ast.Raise, ast.Break, ast.Continue, ast.Yield, ast.YieldFrom, ast.Await, ast.Try, ast.With,
                            ast.For, ast.While, ast.FunctionDef, ast.ClassDef, ast.Lambda, ast.Global, ast.Nonlocal, ast.Import, ast.ImportFrom, ast.Assert, ast.AugAssign)):
            ctrl = True
    return R, W, AR, AW, heap, call, ctrl


def _commute(e1, e2):
    R1, W1, AR1, AW1, h1, c1, k1 = e1
    R2, W2, AR2, AW2, h2, c2, k2 = e2
    if k1 or k2:
        return False
    if W1 & (R2 | W2) or W2 & (R1 | W1):
        return False
    if c1 or c2:
        # a call may read or write anything reachable: only commutes with statements that touch locals alone
        other = e2 if c1 else e1
        if c1 and c2:
            return False
        if other[2] or other[3] or other[4]:
            return False
        return True
    if AW1 & (AR2 | AW2) or AW2 & (AR1 | AW1):
        return False
    if h1 or h2:
        # a subscript store may alias anything the other statement reads
        return False
    return True


def _order_commuting(fnode):
    """adjacent statements that commute (disjoint local reads/writes, no two calls, no aliasable stores) are put into a
    canonical order (text with locals masked), so that two orders of independent statements look the same"""
    local_names = {n.id for n in ast.walk(fnode) if isinstance(n, ast.Name) and isinstance(n.ctx, ast.Store)} | \
        {a.arg for a in fnode.args.posonlyargs + fnode.args.args + fnode.args.kwonlyargs}

    def key(st):
        c = copy.deepcopy(st)
        for n in ast.walk(c):
            if isinstance(n, ast.Name) and n.id in local_names and n.id != "self":
                n.id = "_"
        return unparse(c)

    for block in _blocks(fnode):
        n = len(block)
        if n < 2:
            continue
        eff = [_effects(x, local_names) for x in block]
        keys = [key(x) for x in block]
        for _ in range(n):
            swapped = False
            for k in range(n - 1):
                if keys[k + 1] < keys[k] and _commute(eff[k], eff[k + 1]):
                    block[k], block[k + 1] = block[k + 1], block[k]
                    eff[k], eff[k + 1] = eff[k + 1], eff[k]
                    keys[k], keys[k + 1] = keys[k + 1], keys[k]
                    swapped = True
            if not swapped:
                break
    return fnode


def _comp_vars(fnode):
    """comprehension variables are scoped to their comprehension: give them canonical names"""
    k = [0]

    class T(ast.NodeTransformer):
        def _do(self, node):
            ren = {}
            for g in node.generators:
                for t in ast.walk(g.target):
                    if isinstance(t, ast.Name):
                        ren[t.id] = f"c{k[0]}"
                        k[0] += 1
            for sub in ast.walk(node):
                if isinstance(sub, ast.Name) and sub.id in ren:
                    # the first generator's iterable is evaluated in the enclosing scope
                    if any(sub is x for x in ast.walk(node.generators[0].iter)):
                        continue
                    sub.id = ren[sub.id]
            self.generic_visit(node)
            return node

        visit_ListComp = visit_SetComp = visit_DictComp = visit_GeneratorExp = _do

    T().visit(fnode)
    for n in ast.walk(fnode):
        if isinstance(n, ast.comprehension) and isinstance(n.iter, ast.Call) and isinstance(n.iter.func, ast.Name) and n.iter.func.id in ("list", "tuple") \
                and len(n.iter.args) == 1 and not n.iter.keywords and isinstance(n.iter.args[0], ast.Call):
            # iterating a materialised copy of a freshly created iterable == iterating the iterable
            n.iter = n.iter.args[0]
    return fnode


# ---- alpha renaming -------------------------------------------------------------------------------
def _alpha(fnode):
    params = {a.arg for a in fnode.args.posonlyargs + fnode.args.args + fnode.args.kwonlyargs}
    if fnode.args.vararg:
        params.add(fnode.args.vararg.arg)
    if fnode.args.kwarg:
        params.add(fnode.args.kwarg.arg)
    order = []
    for n in _in_order(fnode):
        if isinstance(n, ast.Name) and isinstance(n.ctx, ast.Store) and n.id not in params and n.id not in order:
            order.append(n.id)
        if isinstance(n, ast.ExceptHandler) and n.name and n.name not in order:
            order.append(n.name)
    ren = {name: f"v{i}" for i, name in enumerate(order)}
    for n in ast.walk(fnode):
        if isinstance(n, ast.Name) and n.id in ren:
            n.id = ren[n.id]
        if isinstance(n, ast.ExceptHandler) and n.name in ren:
            n.name = ren[n.name]
        if isinstance(n, ast.FunctionDef) and n is not fnode and n.name in ren:
            n.name = ren[n.name]
    return fnode


def _in_order(node):
    """pre-order walk that follows evaluation order where the field order does not (comprehensions: generators first)"""
    yield node
    if isinstance(node, (ast.ListComp, ast.SetComp, ast.GeneratorExp, ast.DictComp)):
        for g in node.generators:
            yield from _in_order(g)
        for c in ([node.key, node.value] if isinstance(node, ast.DictComp) else [node.elt]):
            yield from _in_order(c)
        return
    if isinstance(node, ast.comprehension):
        for c in [node.iter, node.target] + list(node.ifs):
            yield from _in_order(c)
        return
    if isinstance(node, ast.Assign):
        yield from _in_order(node.value)
        for t in node.targets:
            yield from _in_order(t)
        return
    for c in ast.iter_child_nodes(node):
        yield from _in_order(c)


# ---------------------------------------------------------------------------------------------------
def _factor_guard(stmts):
    """`if P and A: X elif P and B: Y elif P: Z else: W`  ->  `if P: (if A: X elif B: Y else: Z) else: W`  for a side-effect free
    P (a name, an attribute chain, a comparison of those): the guard-clause flattening of a nested decision, undone.
    Sequential evaluation of the tests sees the same value of P every time because nothing runs between two tests."""
    def simple(e):
        return not any(isinstance(n, (ast.Call, ast.NamedExpr, ast.Await, ast.Yield, ast.YieldFrom)) for n in ast.walk(e))

    out = []
    for st in stmts:
        for fld in ("body", "orelse", "finalbody"):
            sub = getattr(st, fld, None)
            if isinstance(sub, list) and sub and isinstance(sub[0], ast.stmt) and not isinstance(st, (ast.FunctionDef, ast.ClassDef)):
                setattr(st, fld, _factor_guard(sub))
        for h in getattr(st, "handlers", []) or []:
            h.body = _factor_guard(h.body)
        if isinstance(st, ast.If):
            arms, cur = [], st
            while True:
                arms.append((cur.test, cur.body))
                if len(cur.orelse) == 1 and isinstance(cur.orelse[0], ast.If):
                    cur = cur.orelse[0]
                else:
                    tail = cur.orelse
                    break
            if len(arms) >= 2:
                def split(t):
                    if isinstance(t, ast.BoolOp) and isinstance(t.op, ast.And) and len(t.values) >= 2:
                        rest = t.values[1:]
                        return t.values[0], (rest[0] if len(rest) == 1 else ast.BoolOp(op=ast.And(), values=rest))
                    return t, None
                parts = [split(t) for t, _b in arms]
                p0 = unparse(parts[0][0])
                if simple(parts[0][0]) and all(unparse(p) == p0 for p, _r in parts) and all(r is not None for _p, r in parts[:-1]):
                    last_exact = parts[-1][1] is None
                    if last_exact or not tail:
                        inner_arms = [(r, b) for (_p, r), (_t, b) in zip(parts, arms) if r is not None]
                        inner_else = arms[-1][1] if last_exact else []
                        node = None
                        for r, b in reversed(inner_arms):
                            node = ast.If(test=r, body=b, orelse=[node] if node is not None else list(inner_else))
                        outer = ast.If(test=parts[0][0], body=[node] if node is not None else list(inner_else), orelse=list(tail))
                        ast.copy_location(outer, st)
                        ast.fix_missing_locations(outer)
                        out.append(outer)
                        continue
        out.append(st)
    return out


def canon_node(fnode):
    f = _canon_once(fnode)
    prev = unparse(f)
    for _ in range(4):
        f = _canon_once(f)
        cur = unparse(f)
        if cur == prev:
            break
        prev = cur
    return f


def _canon_once(fnode):
    f = copy.deepcopy(fnode)
    f.decorator_list = [d for d in f.decorator_list]
    _strip(f)
    f = _Expr(f).visit(f)
    f = _comp_vars(f)
    f.body = _unreachable(f.body)
    f.body = _or_default(f.body)
    f.body = _tuple_split(f.body)
    f.body = _try_rethrow(f.body)
    f = _unroll_literal_comprehensions(f)
    f.body = _aug_append(f.body)
    f.body = _append_seq_to_concat(f.body)
    f.body = _extend_to_concat(f.body)
    f.body = _while_true(f.body)
    f.body = _ifexp_to_stmt(f.body)
    f.body = _loop_to_comp(f.body)
    f.body = _update_loop_to_dictcomp(f.body)
    f.body = _and_return_to_if(f.body)
    for _ in range(3):
        f.body = _else_form(f.body)
        f.body = _tail_dup(f.body)
    ast.fix_missing_locations(f)
    f = _webs(f)
    for _ in range(3):
        f.body = _else_form(f.body)
        f.body = _push_return(f.body)
    f = _alias_coalesce(f)
    f = _store_load_forward(f)
    f.body = _empty_arms(f.body)
    f = _dead_stores(f)
    f.body = _factor_guard(f.body)
    f = _forward_subst(f)
    f = _subst_pure_multiuse(f)
    f = _subst_type_tests(f)
    f = _subst_attr_chain(f)
    f.body = _loop_to_comp(f.body)
    f = _forward_subst(f)
    f = _dead_stores(f)
    for _ in range(2):
        f.body = _else_form(f.body)
        f.body = _push_return(f.body)
    f.body = _empty_arms(f.body)
    f.body = _positive_if(f.body)
    f = _Expr(f).visit(f)
    f = _order_commuting(f)
    f = _alpha(f)
    ast.fix_missing_locations(f)
    return f


def canon(fnode):
    try:
        return unparse(canon_node(fnode))
    except RecursionError:  # pragma: no cover
        return unparse(fnode)

# pylint: disable=relative-beyond-top-level
import logging
import textwrap

import numpy as np
import pandas as pd

from .environment import Environment
from .model_description import model_description
from .utils import flatten_list

_log = logging.getLogger("formulae")


class DesignMatrices:
    """A wrapper of the response, the common, and group specific effects.

    Parameters
    ----------

    model : Model
        The model description, the result of calling ``model_description``.
    data : pandas.DataFrame
        The data frame where variables are taken from.
    env : Environment
        The environment where values and functions are taken from.

    Attributes
    ----------
    response : ResponseMatrix
        The response in the model. Access its values with ``self.response.design_matrix``. It is
        ``None`` if there is no response term in the model.
    common : CommonEffectsMatrix
        The common effects (a.k.a. fixed effects) in the model. The design matrix can be accessed
        with ``self.common.design_matrix``. The submatrix for a term is accessed via
        ``self.common[term_name]``. It is ``None`` if there are no common terms in the
        model.
    group : GroupEffectsMatrix
        The group specific effects (a.k.a. random effects) in the model. The design matrix can be
        accessed with ``self.group.design_matrix``. The submatrix for a term is accessed via
        ``self.group[term_name]``. It is ``None`` if there are no group specific terms in the
        model.
    """

    def __init__(self, model, data, env):
        self.data = data
        self.env = env
        self.response = None
        self.common = None
        self.group = None
        self.model = model

        # Evaluate terms in the model
        self.model.eval(data, env)

        if self.model.response:
            self.response = ResponseMatrix(self.model.response)
            self.response.evaluate(data, env)

        if self.model.common_terms:
            self.common = CommonEffectsMatrix(self.model.common_terms)
            self.common.evaluate(data, env)

        if self.model.group_terms:
            self.group = GroupEffectsMatrix(self.model.group_terms)
            self.group.evaluate(data, env)

    def __getitem__(self, index):
        return (self.response, self.common, self.group)[index]

    def __repr__(self):
        return self.__str__()

    def __str__(self):
        entries = []
        if self.response:
            entries += [glue_and_align("Response: ", self.response.design_matrix.shape, 30)]

        if self.common:
            entries += [glue_and_align("Common: ", self.common.design_matrix.shape, 30)]

        if self.group:
            entries += [glue_and_align("Group-specific: ", self.group.design_matrix.shape, 30)]

        msg = (
            "DesignMatrices\n\n"
            + glue_and_align("", "(rows, cols)", 30)
            + "\n"
            + "\n".join(entries)
            + "\n\n"
            + "Use .response, .common, or .group to access the different members."
        )
        return msg


class ResponseMatrix:
    """Representation of the respose matrix of a model.

    Parameters
    ----------
    term : Response
        The term that represents the response in the model.

    Attributes
    ----------
    design_matrix : np.array
        A 2-dimensional numpy array containing the values of the response.
    name : string
        The name of the response term.
    kind : string
        The kind of the response. Can be ``"numeric"``, ``"categoric"`` or ``"proportion"`.
    """

    def __init__(self, term):
        self.term = term
        self.name = self.term.term.name
        self.data = None
        self.design_matrix = None
        self.env = None
        self.kind = None
        self.levels = None  # Not None for categorical variables

    def evaluate(self, data, env):
        """Evaluates ``self.term`` inside the data mask provided by ``data`` and
        updates ``self.design_matrix`` and ``self.name``.

        Parameters
        ----------
        data : pandas.DataFrame
            The data frame where variables are taken from.
        env : Environment
            The environment where values and functions are taken from.

        """
        self.data = data
        self.env = env
        self.term.set_type(self.data, self.env)
        self.term.set_data()
        self.kind = self.term.term.kind
        self.design_matrix = self.term.term.data
        self.levels = self.term.term.levels

    def evaluate_new_data(self, data):
        if self.kind == "proportion":
            return self.term.term.eval_new_data(data)
        raise ValueError("Can't evaluate response term with kind different to 'proportion'")

    def as_dataframe(self):
        """Returns ``self.design_matrix`` as a pandas.DataFrame."""
        data = pd.DataFrame(self.design_matrix, columns=self.term.term.labels)
        return data

    def __array__(self):
        return self.design_matrix

    def __repr__(self):
        return self.__str__()

    def __str__(self):
        entries = [
            f"name: {self.name}",
            f"kind: {self.kind}",
            f"shape: {self.design_matrix.shape}",
        ]
        if self.levels is not None:
            entries += [f"levels: {self.levels}"]
        msg = (
            f"ResponseMatrix{wrapify(spacify(multilinify(entries, '')))}\n\n"
            "To access the actual design matrix do 'np.array(this_obj)'"
        )
        return msg


class CommonEffectsMatrix:
    """Representation of the design matrix for the common effects of a model.

    Parameters
    ----------
    terms : list
        A list of ``Term`` objects.


    Attributes
    ----------
    design_matrix : np.array
        A 2-dimensional numpy array containing the values of the design matrix.
    evaluated : bool
        Indicates if the terms have been evaluated at least once. The terms must have been evaluated
        before calling ``self.evaluate_new_data()`` because we must know the kind of each term
        to correctly handle the new data passed and the terms here.
    terms : dict
        A dictionary that holds all the terms passed at instantiation. The keys are given by the
        term names.
    """

    def __init__(self, terms):
        self.terms = {term.name: term for term in terms}
        self.data = None
        self.env = None
        self.design_matrix = None
        self.evaluated = False
        self.slices = {}

    def evaluate(self, data, env):
        """Obtain design matrix for common effects.

        Evaluates ``self.model`` inside the data mask provided by ``data`` and updates
        ``self.design_matrix``. This method also sets the values of ``self.data`` and
        ``self.env``.

        It also populates the dictionary ``self.slices`` ...

        Parameters
        ----------
        data : pandas.DataFrame
            The data frame where variables are taken from
        env : Environment
            The environment where values and functions are taken from.
        """
        self.data = data
        self.env = env
        self.design_matrix = np.column_stack([term.data for term in self.terms.values()])
        start = 0
        for term in self.terms.values():
            if term.data.ndim == 2:
                delta = term.data.shape[1]
            else:
                delta = 1
            self.slices[term.name] = slice(start, start + delta)
            start += delta
        self.evaluated = True

    def evaluate_new_data(self, data):
        """Evaluates common terms with new data and return a new instance of
        ``CommonEffectsMatrix``.

        This method is intended to be used to obtain design matrices for new data and obtain
        out of sample predictions. Stateful transformations are properly handled if present in any
        of the terms, which means parameters involved in the transformation are not overwritten with
        the new data.

        Parameters
        ----------
        data : pandas.DataFrame
            The data frame where variables are taken from

        Returns
        -------
        new_instance : CommonEffectsMatrix
            A new instance of ``CommonEffectsMatrix`` whose design matrix is obtained with the
            values in the new data set.
        """
        if not self.evaluated:
            raise ValueError("Can't evaluate new data on unevaluated matrix.")
        new_instance = self.__class__(self.terms.values())
        new_instance.data = data
        new_instance.env = self.env
        new_instance.design_matrix = np.column_stack(
            [t.eval_new_data(data) for t in self.terms.values()]
        )
        new_instance.slices = self.slices
        new_instance.evaluated = True
        return new_instance

    def as_dataframe(self):
        """Returns `self.design_matrix` as a pandas.DataFrame."""
        colnames = [term.labels for term in self.terms.values()]
        data = pd.DataFrame(self.design_matrix, columns=list(flatten_list(colnames)))
        return data

    def __getitem__(self, term):
        """Get the sub-matrix that corresponds to a given term.

        Parameters
        ----------
        term : string
            The name of the term.

        Returns
        ----------
        matrix : np.array
            A 2-dimensional numpy array that represents the sub-matrix corresponding to the
            term passed.
        """
        if term not in self.slices:
            raise ValueError(f"'{term}' is not a valid term name")
        return self.design_matrix[:, self.slices[term]]

    def __array__(self):
        return self.design_matrix

    def __repr__(self):
        return self.__str__()

    def __str__(self):
        entries = []
        for name, term in self.terms.items():
            content = [f"kind: {term.kind}"]
            if hasattr(term, "levels") and term.levels is not None:
                content += [f"levels: {term.levels}"]
            content += [slice_to_column(self.slices[name])]
            entries += [f"{name}{wrapify(spacify(multilinify(content, '')))}"]
        msg = (
            f"CommonEffectsMatrix with shape {self.design_matrix.shape}\n"
            f"Terms:{spacify(multilinify(entries, ''))}\n\n"
            "To access the actual design matrix do 'np.array(this_obj)'"
        )
        return msg


class GroupEffectsMatrix:
    """Representation of the design matrix for the group specific effects of a model.

    The sub-matrix that corresponds to a specific group effect can be accessed by
    ``self[term_name]``, for example ``self["1|g"]``.

    Parameters
    ----------
    terms : list
        A list of ``GroupSpecificTerm`` objects.

    Attributes
    ----------
    design_matrix : np.array
        A 2 dimensional numpy array with the values of the design matrix.
    evaluated : bool
        Indicates if the terms have been evaluated at least once. The terms must have been evaluated
        before calling ``self.evaluate_new_data()`` because we must know the kind of each term
        to correctly handle the new data passed and the terms here.
    terms : dict
        A dictionary that holds all the group specific terms. The keys are given by the term names.
    """

    def __init__(self, terms):
        self.terms = {term.name: term for term in terms}
        self.data = None
        self.env = None
        self.design_matrix = np.zeros((0, 0))
        self.slices = {}
        self.evaluated = False
        self.factors_with_new_levels = tuple()

    def evaluate(self, data, env):
        """Evaluate group specific terms.

        This evaluates ``self.terms`` inside the data mask provided by ``data`` and the environment
        ``env``. It updates ``self.design_matrix`` with the result from the evaluation of each
        term.

        This method also sets the values of ``self.data`` and ``self.env``. It also populates
        the dictionary ``self.terms_info`` with information related to each term,such as the kind,
        the columns and rows they occupy in the design matrix and the names of the columns.

        Parameters
        ----------
        data : pandas.DataFrame
            The data frame where variables are taken from
        env : Environment
            The environment where values and functions are taken from.
        """
        self.data = data
        self.env = env
        self.design_matrix = np.column_stack([term.data for term in self.terms.values()])
        start = 0
        for term in self.terms.values():
            # NOTE: I think everything we pass here has two columns...
            delta = term.data.shape[1] if term.data.ndim == 2 else 1
            self.slices[term.name] = slice(start, start + delta)
            start += delta
        self.evaluated = True

    def evaluate_new_data(self, data):
        """Evaluates group specific terms with new data and return a new instance of
        ``GroupEffectsMatrix``.

        This method is intended to be used to obtain design matrices for new data and obtain
        out of sample predictions. Stateful transformations are properly handled if present in any
        of the group specific terms, which means parameters involved in the transformation are not
        overwritten with the new data.


        Parameters
        ----------
        data : pandas.DataFrame
            The data frame where variables are taken from

        Returns
        -------
        new_instance : GroupEffectsMatrix
            A new instance of ``GroupEffectsMatrix`` whose design matrix is obtained with the values
            in the new data set.
        """
        if not self.evaluated:
            raise ValueError("Can't evaluate new data on unevaluated matrix.")

        new_instance = self.__class__(self.terms.values())
        new_instance.data = data
        new_instance.env = self.env

        start = 0
        matrices_to_stack = []
        factors_with_new_levels = []

        for term in self.terms.values():
            term_matrix = term.eval_new_data(data)
            delta = term_matrix.shape[1] if term_matrix.ndim == 2 else 1
            matrices_to_stack.append(term_matrix)

            slice_original = self.slices[term.name]
            slice_new = slice(start, start + delta)

            slice_w_original = get_slice_width(slice_original)
            slice_w_new = get_slice_width(slice_new)

            # If the width of the slices differ, there's a new column, thus a new group.
            if slice_w_original != slice_w_new and term.factor.name not in factors_with_new_levels:
                factors_with_new_levels.append(term.factor.name)

            # Always store the new slice.
            # It may be affected even when there are no new groups for this group-specific term
            # because there are other group-specific terms with a new column
            new_instance.slices[term.name] = slice_new

            start += delta

        new_instance.factors_with_new_levels = tuple(factors_with_new_levels)
        new_instance.design_matrix = np.column_stack(matrices_to_stack)
        new_instance.evaluated = True
        return new_instance

    def __getitem__(self, term):
        """Get the sub-matrix that corresponds to a given term.

        Parameters
        ----------
        term: string
            The name of a group specific term.

        Returns
        ----------
        matrix : np.array
            A 2-dimensional numpy array that represents the sub-matrix corresponding to the
            term passed.
        """
        if term not in self.slices:
            raise ValueError(f"'{term}' is not a valid term name")
        return self.design_matrix[:, self.slices[term]]

    def __array__(self):
        return self.design_matrix

    def __repr__(self):
        return self.__str__()

    def __str__(self):
        entries = []
        for name, term in self.terms.items():
            has_levels = hasattr(term.expr, "levels") and term.expr.levels is not None
            groups = term.groups
            term_slice = self.slices[name]
            term_slice_width = get_slice_width(term_slice)
            # Number of columns the expression contributes to each group
            effect_n = term.expr.data.shape[1] if term.expr.data.ndim == 2 else 1
            if term_slice_width != len(groups) * effect_n:  # Has extra groups
                groups = groups + ["__NEW_FACTOR_GROUP__"]
            content = [f"kind: {term.kind}", f"groups: {groups}"]
            if has_levels:
                content += [f"levels: {term.expr.levels}"]
            content += [slice_to_column(term_slice)]
            entries += [f"{name}{wrapify(spacify(multilinify(content, '')))}"]
        msg = (
            f"GroupEffectsMatrix with shape {self.design_matrix.shape}\n"
            f"Terms:{spacify(multilinify(entries, ''))}\n\n"
            "To access the actual design matrix do 'np.array(this_obj)'"
        )
        return msg


def design_matrices(formula, data, na_action="drop", env=0, extra_namespace=None):
    """Parse model formula and obtain a ``DesignMatrices`` object containing objects representing
    the response and the design matrices for both the common and group specific effects.

    Parameters
    ----------
    formula : string
        A model formula.
    data : pandas.DataFrame
        The data frame where variables in the formula are taken from.
    na_action : string
        Describes what to do with missing values in ``data``. ``"drop"`` means to drop
        all rows with a missing value, ``"error"`` means to raise an error,
        ``"pass"`` means to to keep all. Defaults to ``"drop"``.
    env : integer
        The number of environments we walk up in the stack starting from the function's caller
        to capture the environment where formula is evaluated. Defaults to 0 which means
        the evaluation environment is the environment where ``design_matrices`` is called.
    extra_namespace : dict
        Additional user supplied transformations to include in the environment where the formula
        is evaluated. Defaults to ``None``.

    Returns
    -------
    design : DesignMatrices
        An instance of DesignMatrices that contains the design matrice(s) described by
        ``formula``.
    """

    if not isinstance(formula, str):
        raise ValueError("'formula' must be a string.")

    if len(formula) == 0:
        raise ValueError("'formula' cannot be an empty string.")

    if not isinstance(data, pd.DataFrame):
        raise ValueError("'data' must be a pandas.DataFrame.")

    if data.shape[0] == 0:
        raise ValueError("'data' does not contain any observation.")

    if na_action not in ["drop", "error", "pass"]:
        raise ValueError("'na_action' must be either 'drop', 'error' or 'pass'")

    extra_namespace = extra_namespace or {}

    env = Environment.capture(env, reference=1)
    env = env.with_outer_namespace(extra_namespace)

    description = model_description(formula)

    # Incomplete rows are calculated using columns involved in model formula only
    cols_to_select = description.var_names.intersection(set(data.columns))
    data = data[list(cols_to_select)]

    incomplete_rows = data.isna().any(axis=1)
    incomplete_rows_n = incomplete_rows.sum()

    if incomplete_rows_n > 0:
        if na_action == "pass":
            _log.info(
                "Keeping %s/%s rows with at least one missing value in the dataset.",
                incomplete_rows_n,
                data.shape[0],
            )
        elif na_action == "drop":
            _log.info(
                "Automatically removing %s/%s rows from the dataset.",
                incomplete_rows_n,
                data.shape[0],
            )
            data = data[~incomplete_rows]
        else:
            raise ValueError(f"'data' contains {incomplete_rows_n} incomplete rows.")

    design = DesignMatrices(description, data, env)
    return design


# Utils
def spacify(string: str):
    return "  " + "  ".join(string.splitlines(True))


def multilinify(l, sep: str = ","):
    sep += "\n"
    return "\n" + sep.join(l)


def wrapify(string: str, width: int = 100):
    l = string.splitlines(True)
    wrapper = textwrap.TextWrapper(width=width)
    for idx, line in enumerate(l):
        if len(line) > width:
            leading_spaces = len(line) - len(line.lstrip(" "))
            wrapper.subsequent_indent = " " * (leading_spaces + 2)
            wrapped = wrapper.wrap(line)
            l[idx] = "\n".join(wrapped) + "\n"
    return "".join(l)


def slice_to_column(s: slice):
    if s.stop - s.start > 1:
        return f"columns: {s.start}:{s.stop}"
    else:
        return f"column: {s.start}"


def get_slice_width(s: slice):
    return s.stop - s.start


def glue_and_align(key, value, width: int):
    key = str(key)
    value = str(value)
    key_n = len(key)
    value_n = len(value)
    if width > (key_n + value_n):
        return key + value.rjust(width - key_n)
    else:
        return key + value

class Token:
    """Representation of a single Token"""

    def __init__(self, kind, lexeme, literal=None):
        self.kind = kind
        self.lexeme = lexeme
        self.literal = literal

    def __eq__(self, other):
        return (
            self.kind == other.kind
            and self.lexeme == other.lexeme
            and self.literal == other.literal
        )

    def __repr__(self):  # pragma: no cover
        string_list = [
            "'kind': " + str(self.kind),
            "'lexeme': " + str(self.lexeme),
            "'literal': " + str(self.literal),
        ]
        return "{" + ", ".join(string_list) + "}"

    def __str__(self):  # pragma: no cover
        string_list = [
            "kind= " + str(self.kind),
            "lexeme= " + str(self.lexeme),
            "literal= " + str(self.literal),
        ]
        return "Token(" + ", ".join(string_list) + ")"

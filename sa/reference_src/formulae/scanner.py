# pylint: disable=relative-beyond-top-level
from .token import Token


class ScanError(Exception):
    pass


class Scanner:
    """Scan formula string and returns Tokens"""

    def __init__(self, code):
        """Scans a model formula and returns a list of Tokens

        Parameters
        ----------
        code : string
            The code to be scanned.
        """
        self.code = code
        self.start = 0
        self.current = 0
        self.tokens = []

        if not len(self.code):
            raise ScanError("'code' is a string of length 0.")

    def at_end(self):
        return self.current >= len(self.code)

    def advance(self):
        self.current += 1
        return self.code[self.current - 1]

    def peek(self):
        if self.at_end():
            return ""
        return self.code[self.current]

    def peek_next(self):
        if self.current + 1 >= len(self.code):
            return ""
        return self.code[self.current + 1]

    def match(self, expected):
        if self.at_end():
            return False
        if self.code[self.current] != expected:
            return False
        self.current += 1
        return True

    def add_token(self, kind, literal=None):
        # Only literals have "literal != None"
        source = self.code[self.start : self.current]
        self.tokens.append(Token(kind, source, literal))

    def scan_token(self):
        char = self.advance()
        if char in ["'", '"']:
            self.char()
        elif char == "(":
            self.add_token("LEFT_PAREN")
        elif char == ")":
            self.add_token("RIGHT_PAREN")
        elif char == "[":
            self.add_token("LEFT_BRACKET")
        elif char == "]":
            self.add_token("RIGHT_BRACKET")
        elif char == "{":
            self.add_token("LEFT_BRACE")
        elif char == "}":
            self.add_token("RIGHT_BRACE")
        elif char == "`":
            self.backquote()
        elif char == ",":
            self.add_token("COMMA")
        elif char == ".":
            if self.peek().isdigit():
                self.floatnum()
            else:
                self.add_token("PERIOD")
        elif char == "+":
            self.add_token("PLUS")
        elif char == "-":
            self.add_token("MINUS")
        elif char == "/":
            if self.match("/"):
                self.add_token("SLASH_SLASH")
            else:
                self.add_token("SLASH")
        elif char == "*":
            if self.match("*"):
                self.add_token("STAR_STAR")
            else:
                self.add_token("STAR")
        elif char == "!":
            if self.match("="):
                self.add_token("BANG_EQUAL")
            else:
                self.add_token("BANG")
        elif char == "=":
            if self.match("="):
                self.add_token("EQUAL_EQUAL")
            else:
                self.add_token("EQUAL")
        elif char == "<":
            if self.match("="):
                self.add_token("LESS_EQUAL")
            else:
                self.add_token("LESS")
        elif char == ">":
            if self.match("="):
                self.add_token("GREATER_EQUAL")
            else:
                self.add_token("GREATER")
        elif char == "%":
            self.add_token("MODULO")
        elif char == "~":
            self.add_token("TILDE")
        elif char == ":":
            self.add_token("COLON")
        elif char == "|":
            self.add_token("PIPE")
        elif char in [" ", "\n", "\t", "\r"]:
            pass
        elif char.isdigit():
            self.number()
        elif char.isalpha():
            self.identifier()
        else:
            raise ScanError("Unexpected character: " + str(char))

    def scan(self, add_intercept=True):
        """Scan formula string.

        Parameters
        ----------
        add_intercept : bool
            Indicates if an implicit intercept should be included. Defaults to True.

        Returns
        -------
        tokens : list
            A list of objects of class Token
        """
        while not self.at_end():
            self.start = self.current
            self.scan_token()
        self.tokens.append(Token("EOF", ""))

        # Check number of '~' and add implicit intercept
        tilde_idx = [i for i in range(len(self.tokens)) if is_tilde(self.tokens[i])]

        if len(tilde_idx) > 1:
            raise ScanError("There is more than one '~' in model formula")

        if add_intercept:
            if len(tilde_idx) == 0:
                self.tokens = [Token("NUMBER", "1", 1), Token("PLUS", "+")] + self.tokens
            if len(tilde_idx) == 1:
                self.tokens.insert(tilde_idx[0] + 1, Token("NUMBER", "1", 1))
                self.tokens.insert(tilde_idx[0] + 2, Token("PLUS", "+"))

        return self.tokens

    def floatnum(self):
        while self.peek().isdigit():
            self.advance()
        self.add_token("NUMBER", float(self.code[self.start : self.current]))

    def number(self):
        is_float = False
        while self.peek().isdigit():
            self.advance()
        # Look for fractional part, if present
        if self.peek() == "." and self.peek_next().isdigit():
            is_float = True
            # Consume the dot
            self.advance()
            # Keep consuming numbers, if present
            while self.peek().isdigit():
                self.advance()
        if is_float:
            token = float(self.code[self.start : self.current])
        else:
            token = int(self.code[self.start : self.current])

        self.add_token("NUMBER", token)

    # pylint: disable=eval-used
    def identifier(self):
        # 'mod.function' is also an identifier
        while self.peek().isalnum() or self.peek() in [".", "_"]:
            self.advance()

        token = self.code[self.start : self.current]
        if token in ("True", "False", "None"):  # These are actually literals, not variable names
            self.add_token("PYTHON_LITERAL", eval(token))  # Pass literals, not strings
        else:
            self.add_token("IDENTIFIER")

    def char(self):
        while self.peek() not in ["'", '"'] and not self.at_end():
            self.advance()

        if self.at_end():
            raise ScanError("Unterminated string.")

        # The closing quotation mark.
        self.advance()

        # Trim the surrounding quotes.
        value = self.code[self.start + 1 : self.current - 1]
        self.add_token("STRING", value)

    def backquote(self):
        while True:
            if self.peek() == "`":
                break
            self.advance()
        self.advance()
        self.add_token("BQNAME")


def is_tilde(token):
    return token.kind == "TILDE"

import logging

from importlib.metadata import version

from .config import config
from .matrices import design_matrices
from .model_description import model_description

# from .version import __version__

__version__ = version("formulae")

__all__ = [
    "config",
    "design_matrices",
    "model_description",
    "__version__",
]

_log = logging.getLogger("formulae")

if not logging.root.handlers:
    _log.setLevel(logging.INFO)
    if len(_log.handlers) == 0:
        handler = logging.StreamHandler()
        _log.addHandler(handler)

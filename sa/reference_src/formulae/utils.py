from copy import deepcopy

import numpy as np
import pandas as pd

from packaging.version import Version


def listify(obj):
    """Wrap all non-list or tuple objects in a list.

    Provides a simple way to accept flexible arguments.
    """
    if obj is None:
        return []
    else:
        return obj if isinstance(obj, (list, tuple)) else [obj]


def flatten_list(nested_list):
    """Flatten a nested list"""
    nested_list = deepcopy(nested_list)
    while nested_list:
        sublist = nested_list.pop(0)
        if isinstance(sublist, list):
            nested_list = sublist + nested_list
        else:
            yield sublist


def get_interaction_matrix(x, y):
    l = []

    if x.ndim == 1:
        x = x[:, np.newaxis]

    if y.ndim == 1:
        y = y[:, np.newaxis]

    for j1 in range(x.shape[1]):
        for j2 in range(y.shape[1]):
            l.append(x[:, j1] * y[:, j2])
    return np.column_stack(l)


def is_categorical_dtype(arr_or_dtype):
    """Check whether an array-like or dtype is of the pandas Categorical dtype."""
    # https://pandas.pydata.org/docs/whatsnew/v2.1.0.html#other-deprecations
    if Version(pd.__version__) < Version("2.1.0"):
        return pd.api.types.is_categorical_dtype(arr_or_dtype)
    else:
        if hasattr(arr_or_dtype, "dtype"):  # it's an array
            dtype = getattr(arr_or_dtype, "dtype")
        else:
            dtype = arr_or_dtype
        return isinstance(dtype, pd.CategoricalDtype)

from formulae.terms.terms import Model

from formulae.scanner import Scanner
from formulae.parser import Parser
from formulae.resolver import Resolver


def model_description(formula):
    """Interpret model formula and obtain a model description.

    This function receives a string with a formula describing a statistical
    model and returns an object of class ModelTerms that describes the
    model interpreted from the formula.

    Parameters
    ----------
    formula: string
        A string with a model description in formula language.

    Returns
    ----------
    An object of class ModelTerms with an internal description of the model.
    """

    description = Resolver(Parser(Scanner(formula).scan()).parse()).resolve()

    if isinstance(description, Model):
        return description

    return Model(description)

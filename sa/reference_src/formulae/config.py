class Config:
    FIELDS = {"EVAL_UNSEEN_CATEGORIES": ("error", "warning", "silent")}

    def __init__(self, config_dict: dict = None):
        config_dict = {} if config_dict is None else config_dict
        for field, choices in Config.FIELDS.items():
            if field in config_dict:
                value = config_dict[field]
            else:
                value = choices[0]
            self[field] = value

    def __setitem__(self, key, value):
        setattr(self, key, value)

    def __setattr__(self, key, value):
        if key in Config.FIELDS:
            if value in Config.FIELDS[key]:
                super().__setattr__(key, value)
            else:
                raise ValueError(f"{value} is not a valid value for '{key}'")
        else:
            raise KeyError(f"'{key}' is not a valid configuration option")

    def __getitem__(self, key):
        return getattr(self, key)

    def __str__(self):  # pragma: no cover
        lines = []
        for field, choices in Config.FIELDS.items():
            lines.append(f"{field}: {self[field]} (available: {list(choices)})")
        header = ["Formulae configuration"]
        header.append("-" * len(header[0]))
        return "\n".join(header + lines)

    def __repr__(self):  # pragma: no cover
        return str(self)


config = Config()

from formulae.terms import Variable, Call, Term, Intercept, NegatedIntercept, Response
from formulae.terms.call_resolver import CallResolver


class ResolverError(Exception):
    pass


class Resolver:
    """Visitor that walks through the AST and returns a model description"""

    def __init__(self, expr):
        self.expr = expr

    def resolve(self):
        return self.expr.accept(self)

    def visitGroupingExpr(self, expr):
        return expr.expression.accept(self)

    def visitBinaryExpr(self, expr):  # pylint: disable=too-many-return-statements
        otype = expr.operator.kind
        if otype == "TILDE":
            return Response(expr.left.accept(self)) + expr.right.accept(self)
        if otype == "PLUS":
            return expr.left.accept(self) + expr.right.accept(self)
        elif otype == "MINUS":
            return expr.left.accept(self) - expr.right.accept(self)
        elif otype == "STAR_STAR":
            return expr.left.accept(self) ** expr.right.accept(self)
        elif otype == "COLON":
            # there is not __colon__ method
            return expr.left.accept(self) @ expr.right.accept(self)
        elif otype == "STAR":
            return expr.left.accept(self) * expr.right.accept(self)
        elif otype == "SLASH":
            return expr.left.accept(self) / expr.right.accept(self)
        elif otype == "PIPE":
            return expr.left.accept(self) | expr.right.accept(self)
        else:  # pragma: no cover
            raise ResolverError("Couldn't resolve BinaryExpr with otype '" + otype + "'")

    def visitUnaryExpr(self, expr):
        otype = expr.operator.kind
        if otype == "PLUS":
            return expr.right.accept(self)
        elif otype == "MINUS":
            expr = expr.right.accept(self)
            if isinstance(expr, Intercept):
                return NegatedIntercept()
            elif isinstance(expr, NegatedIntercept):
                return Intercept()
            else:
                raise ResolverError("Unary negation can only be applied to '0' or '1'")
        else:  # pragma: no cover
            raise ResolverError("Couldn't resolve UnaryExpr with otype '" + otype + "'")

    def visitCallExpr(self, expr):
        # Delegates all the work to self._visitCallExpr, that works recursively through its args.
        # It just wraps the result in a Term object.
        return Term(Call(CallResolver(expr).resolve()))

    def visitVariableExpr(self, expr):
        if expr.level:
            level = expr.level.value
        else:
            level = None
        return Term(Variable(expr.name.lexeme, level))

    def visitLiteralExpr(self, expr):
        if expr.value == 0:
            return NegatedIntercept()
        elif expr.value == 1:
            return Intercept()
        else:
            return Term(Variable(expr.value))

    def visitQuotedNameExpr(self, expr):
        # Quoted names don't accept levels yet.
        return Term(Variable(expr.expression.lexeme[1:-1]))

# see https://github.com/pydata/patsy/blob/master/patsy/redundancy.py
def _sorted_subsets(tupl):
    def helper(seq):
        if not seq:
            yield ()
        else:
            obj = seq[0]
            for subset in _sorted_subsets(seq[1:]):
                yield subset
                yield (obj,) + subset

    expanded = list(enumerate(tupl))
    expanded_subsets = list(helper(expanded))
    expanded_subsets.sort()
    expanded_subsets.sort(key=len)

    for subset in expanded_subsets:
        yield tuple(obj for (idx, obj) in subset)


class ExpandedFactor:
    """An factor with an additional annotation for whether it is coded
    full-rank (includes_intercept=True) or not."""

    def __init__(self, includes_intercept, factor):
        self.includes_intercept = includes_intercept
        self.factor = factor

    def __hash__(self):
        return hash((ExpandedFactor, self.includes_intercept, self.factor))

    def __eq__(self, other):
        if not isinstance(other, type(self)):
            return False
        else:
            return (
                self.includes_intercept == other.includes_intercept and self.factor == other.factor
            )

    def __ne__(self, other):
        return not self == other

    def __repr__(self):
        if self.includes_intercept:
            suffix = "+"
        else:
            suffix = "-"
        return f"{self.factor}{suffix}"


# And a collection of Terms make up an EvalFactor
class Subterm:
    """Representation of a Subterm contained within a Term.

    The collection of Subterms of a Term clearly represents all the
    vector spaces in consideration.

    Parameters
    ----------
    efactors: set-like
        A set of one or more ExpandedFactor involved in the Subterm
    """

    def __init__(self, efactors):
        self.efactors = frozenset(efactors)

    def can_absorb(self, other):
        is_one_element_smaller = len(self.efactors) - len(other.efactors) == 1
        is_contained_within_self = self.efactors.issuperset(other.efactors)
        return is_one_element_smaller and is_contained_within_self

    def absorb(self, other):
        """Create new Subterm from the simplification (absorption) of self with another Subterm

        Basically, it returns a new Subterm where 'efactors' is composed of
        * other.efactors
          AND
        * the ExpandedFactor resulting from the  difference between
          self.efactors and other.efactors with the 'includes_intercept' set to True


        Examples
        ----------
        * [a-, b-] "absorb" [a-] -> [a-, b+]
        * [a-, b-] "absorb" [b-] -> [a+, b-]
        * [a-, b-, c-] "absorb" [a-, b-] -> [a-, b-, c+]

        """

        diff = self.efactors.difference(other.efactors)
        assert len(diff) == 1
        efactor = list(diff)[0]
        assert not efactor.includes_intercept
        new_factors = set(other.efactors)
        new_factors.add(ExpandedFactor(True, efactor.factor))
        return Subterm(new_factors)

    def __hash__(self):
        return hash((Subterm, self.efactors))

    def __eq__(self, other):
        if not isinstance(other, type(self)):
            return False
        else:
            return self.efactors == other.efactors

    def __ne__(self, other):
        return not self == other

    def __repr__(self):
        return f"{self.__class__.__name__}({list(self.efactors)})"


class ExpandedTerm:
    def __init__(self, name, components):
        self.name = name
        self.components = components
        self.subterms = []

    def pick_contrast(self, used_subterms):
        """Obtain constrasts for a given term

        Parameters
        ----------
        used_subterms: set
            A set of Subterms that have already been used so they are discarded here.
            This object is modified in-place!
        """

        self.subterms = []
        components = self.components

        for subset in _sorted_subsets(components):
            subterm = Subterm([ExpandedFactor(False, f) for f in subset])
            if subterm not in used_subterms:
                self.subterms.append(subterm)
        # used_subterms is modified in-place
        used_subterms.update(self.subterms)
        self.simplify_subterms()
        factor_codings = []
        for subterm in self.subterms:
            factor_coding = {}
            for expanded in subterm.efactors:
                factor_coding[expanded.factor] = expanded.includes_intercept
            factor_codings.append(factor_coding)
        return factor_codings

    def _simplify_subterm(self):
        # modifies self.subterms
        for short_i, short_subterm in enumerate(self.subterms):
            for long_i, long_subterm in enumerate(self.subterms[short_i + 1 :]):
                if long_subterm.can_absorb(short_subterm):
                    new_subterm = long_subterm.absorb(short_subterm)
                    self.subterms[short_i + 1 + long_i] = new_subterm
                    self.subterms.pop(short_i)
                    return True
        return False

    def simplify_subterms(self):
        while self._simplify_subterm():
            pass
        return self.subterms


def pick_contrasts(group):
    """Determines whether each term is encoded with "n" or "n-1" dummies

    Parameters
    ----------
    terms: ModelTerms
        A set of one or more ExpandedFactor involved in the Subterm
    """

    used_subterms = set()
    codings = {}
    for name, components in group.items():
        codings[name] = ExpandedTerm(name, components).pick_contrast(used_subterms)
    return codings

class Assign:
    """Expr for Asssignments.

    This type of expressions can be parsed anywhere, but can only be resolved
    within function call arguments.
    """

    def __init__(self, name, value):
        self.name = name
        self.value = value

    def __eq__(self, other):
        if not isinstance(other, type(self)):
            return False
        return self.name == other.name and self.value == other.value

    def __repr__(self):  # pragma: no cover
        return self.__str__()

    def __str__(self):  # pragma: no cover
        right = "  ".join(str(self.value).splitlines(True))
        return f"Assign(name={self.name}, value={right})"

    def accept(self, visitor):
        return visitor.visitAssignExpr(self)


class Grouping:
    def __init__(self, expression):
        self.expression = expression

    def __eq__(self, other):
        if not isinstance(other, type(self)):
            return False
        return self.expression == other.expression

    def __repr__(self):  # pragma: no cover
        return self.__str__()

    def __str__(self):  # pragma: no cover
        return "Grouping(\n  " + "  ".join(str(self.expression).splitlines(True)) + "\n)"

    def accept(self, visitor):
        return visitor.visitGroupingExpr(self)


class Binary:
    def __init__(self, left, operator, right):
        self.left = left
        self.operator = operator
        self.right = right

    def __eq__(self, other):
        if not isinstance(other, type(self)):
            return False
        return (
            self.left == other.left
            and self.operator == other.operator
            and self.right == other.right
        )

    def __repr__(self):  # pragma: no cover
        return self.__str__()

    def __str__(self):  # pragma: no cover
        left = "  ".join(str(self.left).splitlines(True))
        right = "  ".join(str(self.right).splitlines(True))
        string_list = ["left=" + left, "op=" + str(self.operator.lexeme), "right=" + right]
        return "Binary(\n  " + ",\n  ".join(string_list) + "\n)"

    def accept(self, visitor):
        return visitor.visitBinaryExpr(self)


class Unary:
    def __init__(self, operator, right):
        self.operator = operator
        self.right = right

    def __eq__(self, other):
        if not isinstance(other, type(self)):
            return False
        return self.operator == other.operator and self.right == other.right

    def __repr__(self):  # pragma: no cover
        return self.__str__()

    def __str__(self):  # pragma: no cover
        right = "  ".join(str(self.right).splitlines(True))
        string_list = ["op=" + str(self.operator.lexeme), "right=" + right]
        return "Unary(\n  " + ", ".join(string_list) + "\n)"

    def accept(self, visitor):
        return visitor.visitUnaryExpr(self)


class Call:
    """Function call expressions"""

    def __init__(self, callee, args):
        self.callee = callee
        self.args = args

    def __eq__(self, other):
        if not isinstance(other, type(self)):
            return False
        return self.callee == other.callee and self.args == other.args

    def __repr__(self):  # pragma: no cover
        return self.__str__()

    def __str__(self):  # pragma: no cover
        string_list = [
            "callee=" + str(self.callee),
            "args=" + "  ".join(str(self.args).splitlines(True)),
        ]
        return "Call(\n  " + ",\n  ".join(string_list) + "\n)"

    def accept(self, visitor):
        return visitor.visitCallExpr(self)


class Variable:
    def __init__(self, name, level=None):
        self.name = name
        self.level = level

    def __eq__(self, other):
        if not isinstance(other, type(self)):
            return False
        return self.name == other.name and self.level == other.level

    def __repr__(self):  # pragma: no cover
        return self.__str__()

    def __str__(self):  # pragma: no cover
        string_list = ["name=" + self.name.lexeme]
        if self.level is not None:
            string_list.append("level=" + self.level.value)
        return "Variable(" + ",\n  ".join(string_list) + ")"

    def accept(self, visitor):
        return visitor.visitVariableExpr(self)


class QuotedName:
    """Expressions for back-quoted names (i.e. `@1wrid_name!!`)"""

    def __init__(self, expression):
        self.expression = expression

    def __eq__(self, other):
        if not isinstance(other, type(self)):
            return False
        return self.expression == other.expression

    def __repr__(self):  # pragma: no cover
        return self.__str__()

    def __str__(self):  # pragma: no cover
        return "QuotedName(" + self.expression.lexeme + ")"

    def accept(self, visitor):
        return visitor.visitQuotedNameExpr(self)


class Literal:
    def __init__(self, value, lexeme=None):
        self.value = value
        self.lexeme = lexeme

    def __eq__(self, other):
        if not isinstance(other, type(self)):
            return False
        return self.value == other.value and self.lexeme == other.lexeme

    def __repr__(self):  # pragma: no cover
        return self.__str__()

    def __str__(self):  # pragma: no cover
        kwargs = {"value": self.value, "lexeme": self.lexeme}
        body_list = [f"{k}={v}" for k, v in kwargs.items() if v is not None]
        body = ", ".join(body_list)
        return f"Literal({body})"

    def accept(self, visitor):
        return visitor.visitLiteralExpr(self)

from abc import ABC, abstractmethod

import numpy as np
import pandas as pd


class ContrastMatrix:
    """A representation of a contrast matrix

    Parameters
    ----------
    contrast: 2-dimensional np.array
        The contrast matrix as a numpy array.
    labels: list or tuple
        The labels for the columns of the contrast matrix. Its length must match the number of
        columns in the contrast matrix.
    """

    def __init__(self, matrix, labels):
        self.matrix = matrix
        self.labels = labels
        if matrix.shape[1] != len(labels):  # pragma: no cover
            raise ValueError(
                "The number of columns in the contrast matrix is not equal to the number of labels"
            )

    @property
    def matrix(self):
        return self._matrix

    @matrix.setter
    def matrix(self, value):
        if not (
            isinstance(value, np.ndarray) and value.dtype.kind in "if" and value.ndim == 2
        ):  # pragma: no cover
            raise ValueError("The matrix argument must be a 2d numerical numpy array")
        self._matrix = value

    @property
    def labels(self):
        return self._labels

    @labels.setter
    def labels(self, value):
        if not isinstance(value, (list, tuple)):  # pragma: no cover
            raise ValueError("The labels argument must be a list or a tuple")

        if not all(isinstance(i, str) for i in value):  # pragma: no cover
            raise ValueError("The items in the labels argument must be of type 'str'")

        self._labels = value

    def __str__(self):  # pragma: no cover
        msg = (
            f"{self.__class__.__name__}\n"
            f"Matrix:\n{self.matrix}\n\n"
            f"Labels:\n{', '.join(self.labels)}"
        )
        return msg

    def __repr__(self):  # pragma: no cover
        return self.__str__()


class CategoricalBox:
    """A container with information to encode categorical data

    Parameters
    ----------
    data: 1d array-like
        The data converted to categorical.
    contrast: Encoding
        An instance that represents the contrast matrix used to encode the categorical variable.
    levels: list or tuple
        The levels in ``data`` in the desired order.
    """

    def __init__(self, data, contrast, levels):
        # If 'data' is ordered and no explicit levels have been passed, use order in 'data'.
        if hasattr(data.dtype, "ordered") and data.dtype.ordered and levels is None:
            levels = data.dtype.categories.tolist()
        self.data = data
        self.contrast = contrast
        self.levels = levels

    @property
    def data(self):
        return self._data

    @data.setter
    def data(self, value):
        if isinstance(value, pd.Series):
            value = np.asarray(value)
        if not (isinstance(value, np.ndarray) and value.ndim == 1):  # pragma: no cover
            raise ValueError("The data argument must be one dimensional array-like")
        self._data = value

    @property
    def contrast(self):
        return self._contrast

    @contrast.setter
    def contrast(self, value):
        # Allows to do C(x, Treatment) instead of C(x, Treatment())
        if callable(value):
            value = value()

        if not (isinstance(value, Encoding) or value is None):  # pragma: no cover
            raise ValueError("The contrast argument in must be an instance of Encoding")
        self._contrast = value

    @property
    def levels(self):
        return self._levels

    @levels.setter
    def levels(self, value):
        if value is not None and set(value) != set(self.data):  # pragma: no cover
            raise ValueError("The levels beign assigned and the levels in the data differ")
        self._levels = value


class Encoding(ABC):
    """Abstract class for custom Encodings"""

    @abstractmethod
    def code_with_intercept(self, levels):  # pragma: no cover
        """This contrast matrix _does_ span the intercept"""
        return

    @abstractmethod
    def code_without_intercept(self, levels):  # pragma: no cover
        """This contrast matrix _does not_ span the intercept"""
        return


class Treatment(Encoding):
    def __init__(self, reference=None):
        """Treatment encoding

        This is also known as dummy encoding.

        When the encoding is not full-rank, one level is taken as reference and the regression
        coefficients measure the difference between the each level and the reference. In that case,
        the intercept represents the mean of the reference level.

        When the encoding is of full-rank, there's a dummy variable for each level representing
        its mean.

        Parameters
        ----------
        reference: str
            The level to take as reference
        """
        self.reference = reference

    def code_with_intercept(self, levels):
        contrast = np.eye(len(levels), dtype=int)
        labels = [str(level) for level in levels]
        return ContrastMatrix(contrast, labels)

    def code_without_intercept(self, levels):
        # First category is the default reference
        if self.reference is None:
            reference = 0
        else:
            if self.reference in levels:
                reference = levels.index(self.reference)
            else:  # pragma: no cover
                raise ValueError("reference not in levels")

        eye = np.eye(len(levels) - 1, dtype=int)
        contrast = np.vstack(
            (eye[:reference, :], np.zeros((1, len(levels) - 1)), eye[reference:, :])
        )
        levels = levels[:reference] + levels[reference + 1 :]
        labels = [str(level) for level in levels]
        return ContrastMatrix(contrast, labels)


class Sum(Encoding):
    def __init__(self, omit=None):
        """Sum-to-zero encoding

        This is also known as deviation encoding. It compares the the mean of each level to the
        grand mean (aka mean-of-means).

        For full-rank coding, an intercept term is added. This intercept represents the mean
        of the response variable.

        One level must be omitted to avoid redundancy. By default, this is the last level, but this
        can be adjusted via the `omit` argument.

        Parameters
        ----------
        omit: str
            The level to omit.
        """
        self.omit = omit

    def _omit_index(self, levels):
        """Returns a number between 0 and len(levels) - 1"""
        if self.omit is None:
            # By default, omit the last level.
            return len(levels) - 1
        else:
            return levels.index(self.omit)

    def _sum_contrast(self, levels):
        n = len(levels)
        omit_index = self._omit_index(levels)
        eye = np.eye(n - 1, dtype=int)
        out = np.empty((n, n - 1), dtype=int)

        out[:omit_index, :] = eye[:omit_index, :]
        out[omit_index, :] = -1
        out[omit_index + 1 :, :] = eye[omit_index:, :]
        return out

    def code_with_intercept(self, levels):
        contrast = self.code_without_intercept(levels)
        matrix = np.column_stack((np.ones(len(levels), dtype=int), contrast.matrix))

        labels = ["mean"] + contrast.labels
        return ContrastMatrix(matrix, labels)

    def code_without_intercept(self, levels):
        matrix = self._sum_contrast(levels)
        omit_index = self._omit_index(levels)
        levels = levels[:omit_index] + levels[omit_index + 1 :]
        labels = [str(level) for level in levels]
        return ContrastMatrix(matrix, labels)


ENCODINGS = {"Treatment": Treatment, "Sum": Sum}

# inconsistently raises this problem
# pylint: disable=relative-beyond-top-level
from .expr import Assign, Grouping, Binary, Unary, Call, Variable, QuotedName, Literal
from .token import Token
from .utils import listify


class ParseError(Exception):
    pass


class Parser:  # pylint: disable=too-many-public-methods
    """Parses a sequence of Tokens and returns an abstract syntax tree.

    Parameters
    ----------
    tokens : list
        A list populated with objects of class Token as returned by scanner.Scanner.
    """

    def __init__(self, tokens):
        self.current = 0
        self.tokens = tokens
        # pass options to understand custom functionality

    def at_end(self):
        return self.peek().kind == "EOF"

    def advance(self):  # pylint: disable=inconsistent-return-statements
        if not self.at_end():
            self.current += 1
            return self.tokens[self.current - 1]

    def peek(self):
        """Returns the Token we are about to consume"""
        return self.tokens[self.current]

    def previous(self):
        """Returns the last Token we consumed"""
        return self.tokens[self.current - 1]

    def check(self, types):
        # Checks multiple types at once
        if self.at_end():
            return False
        return self.peek().kind in listify(types)

    def match(self, types):
        if self.check(types):
            self.advance()
            return True
        else:
            return False

    def consume(self, kind, message):
        """Consumes the next Token

        First, it checks if the next Token is of the expected kind.
        If True, it calls self.advance() and it's Saul Goodman.
        Otherwise, we've found an error.
        """
        if self.check(kind):
            return self.advance()
        else:
            raise ParseError(message)

    def parse(self):
        """Parse a sequence of Tokens

        Returns
        -------
        An object of class expr.Expr describing the parsed AST.
        """
        expr = self.expression()
        if not self.at_end():
            raise ParseError(f"Unexpected token '{self.peek().lexeme}' after the end of the formula.")
        return expr

    def expression(self):
        return self.assignment()

    def assignment(self):
        expr = self.tilde()
        if self.match("EQUAL"):
            right = self.addition()
            if isinstance(expr, Variable):
                return Assign(expr, right)
            else:
                raise ParseError("Invalid assignment target.")
        return expr

    def tilde(self):
        expr = self.random_effect()
        if self.match("TILDE"):
            operator = self.previous()
            right = self.addition()
            expr = Binary(expr, operator, right)
        return expr

    def random_effect(self):
        expr = self.comparison()
        while self.match(["PIPE"]):
            operator = self.previous()
            right = self.comparison()
            expr = Binary(expr, operator, right)
        return expr

    def comparison(self):
        expr = self.addition()
        while self.match(
            ["EQUAL_EQUAL", "BANG_EQUAL", "LESS_EQUAL", "LESS", "GREATER_EQUAL", "GREATER"]
        ):
            operator = self.previous()
            right = self.addition()
            expr = Binary(expr, operator, right)
        return expr

    def addition(self):
        expr = self.multiplication()
        while self.match(["MINUS", "PLUS"]):
            operator = self.previous()
            right = self.multiplication()
            expr = Binary(expr, operator, right)
        return expr

    def multiplication(self):
        expr = self.interaction()
        while self.match(["STAR", "SLASH"]):
            operator = self.previous()
            right = self.interaction()
            expr = Binary(expr, operator, right)
        return expr

    def interaction(self):
        expr = self.multiple_interaction()
        while self.match(["COLON"]):
            operator = self.previous()
            right = self.multiple_interaction()
            expr = Binary(expr, operator, right)
        return expr

    def multiple_interaction(self):
        expr = self.unary()
        while self.match(["STAR_STAR"]):
            operator = self.previous()
            right = self.unary()
            expr = Binary(expr, operator, right)
        return expr

    def unary(self):
        if self.match(["PLUS", "MINUS"]):
            operator = self.previous()
            right = self.unary()
            return Unary(operator, right)
        return self.call()

    def call(self):
        expr = self.primary()
        while True:
            if self.match("LEFT_PAREN"):
                expr = self.finishcall(expr)
            else:
                break
        return expr

    def finishcall(self, expr):
        args = []
        if not self.check("RIGHT_PAREN"):
            while True:
                args.append(self.expression())
                if not self.match("COMMA"):
                    break
        self.consume("RIGHT_PAREN", "Expect ')' after arguments.")
        expr = Call(expr, args)
        return expr

    def primary(self):  # pylint: disable=too-many-return-statements
        if self.match("IDENTIFIER"):
            identifier = self.previous()
            if self.match("LEFT_BRACKET"):
                level = self.primary()
                if isinstance(level, Literal) and not isinstance(level.value, str):
                    raise ParseError("Subset notation only allows a string or an identifer.")

                if isinstance(level, Variable):
                    if level.level is not None:
                        raise ParseError("Are you using nested brackets? Why?")
                    level = Literal(level.name.lexeme)

                self.consume("RIGHT_BRACKET", "Expect ']' after level name.")
                return Variable(identifier, level)
            else:
                return Variable(self.previous())
        elif self.match("NUMBER"):
            return Literal(self.previous().literal)
        elif self.match("STRING"):
            token = self.previous()
            return Literal(token.literal, lexeme=token.lexeme)
        elif self.match("BQNAME"):
            return QuotedName(self.previous())
        elif self.match("PYTHON_LITERAL"):
            return Literal(self.previous().literal)
        elif self.match("LEFT_PAREN"):
            expr = self.expression()
            self.consume("RIGHT_PAREN", "Expect ')' after expression.")
            return Grouping(expr)
        elif self.match("LEFT_BRACE"):
            # {x + 1} is translated to I(x + 1) and then we resolve the latter.
            expr = self.expression()
            self.consume("RIGHT_BRACE", "Expect '}' after expression.")
            return Call(Variable(Token("IDENTIFIER", "I")), [expr])
        else:  # pragma: no cover
            raise ParseError(f"Don't know how to parse '{self.peek().lexeme}'")

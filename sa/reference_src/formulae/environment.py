# VarLookUpDict and Environment are taken from Patsy library.
# For more info see: https://github.com/pydata/patsy/blob/master/patsy/eval.py
import inspect
import numbers


class VarLookupDict:
    def __init__(self, dicts):
        self._dicts = [{}] + list(dicts)

    def __getitem__(self, key):
        for d in self._dicts:
            try:
                return d[key]
            except KeyError:
                pass
        raise KeyError(key)

    def __setitem__(self, key, value):
        self._dicts[0][key] = value

    def __contains__(self, key):
        try:
            self[key]
        except KeyError:
            return False
        else:
            return True

    def get(self, key, default=None):
        try:
            return self[key]
        except KeyError:
            return default

    def keys(self):
        return [list(d.keys()) for d in self._dicts]

    def __repr__(self):  # pragma: no cover
        return f"{self.__class__.__name__}({self._dicts})"


class Environment:
    """Represents a Python execution environment.
    Encapsulates a namespace for variable lookup
    """

    def __init__(self, namespaces):
        self._namespaces = list(namespaces)

    @property
    def namespace(self):
        """A dict-like object that can be used to look up variables accessible
        from the encapsulated environment."""
        return VarLookupDict(self._namespaces)

    def with_outer_namespace(self, outer_namespace):
        return self.__class__(self._namespaces + [outer_namespace])

    @classmethod
    def capture(cls, env=0, reference=0):
        if isinstance(env, cls):
            return env
        elif isinstance(env, numbers.Integral):
            depth = env + reference
        else:
            raise TypeError("'env' must be either an integer or an instance of Environment.")
        frame = inspect.currentframe()
        try:
            for _ in range(depth + 1):
                if frame is None:
                    raise ValueError("call-stack is not that deep!")
                frame = frame.f_back
            return cls([frame.f_locals, frame.f_globals])
        finally:
            del frame

    def _namespace_ids(self):
        return [id(n) for n in self._namespaces]

    def __eq__(self, other):
        return isinstance(other, type(self)) and self._namespace_ids() == other._namespace_ids()

    def __ne__(self, other):
        return not self == other

from formulae.utils import flatten_list


class CallVarsExtractor:
    """Visitor that extracts variable names present in a model formula"""

    def __init__(self, expr):
        self.expr = expr

    def get(self):
        return list(flatten_list(self.expr.accept(self)))

    def visitCallTerm(self, term):
        return term.call.accept(self)

    def visitAssignExpr(self, expr):
        return str(expr.value.accept(self))

    def visitGroupingExpr(self, expr):
        return expr.expression.accept(self)

    def visitBinaryExpr(self, expr):
        return [expr.left.accept(self), expr.right.accept(self)]

    def visitUnaryExpr(self, expr):
        return expr.right.accept(self)

    def visitCallExpr(self, expr):
        return list(flatten_list([arg.accept(self) for arg in expr.args]))

    def visitVariableExpr(self, expr):
        return expr.name.lexeme

    def visitLiteralExpr(self, expr):  # pylint: disable = unused-argument
        return ""

    def visitQuotedNameExpr(self, expr):
        # delete backquotes in 'variable'
        return expr.expression.lexeme[1:-1]

    def visitLazyOperator(self, expr):
        return list(arg.accept(self) for arg in expr.args)

    def visitLazyVariable(self, expr):
        return expr.name

    def visitLazyValue(self, expr):  # pylint: disable = unused-argument
        return ""

    def visitLazyCall(self, expr):
        args = list(flatten_list([arg.accept(self) for arg in expr.args]))
        kwargs = list(flatten_list([arg.accept(self) for arg in expr.kwargs.values()]))
        return args + kwargs

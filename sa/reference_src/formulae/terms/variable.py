import sys
import warnings

import numpy as np
import pandas as pd

from pandas.api.types import is_numeric_dtype, is_string_dtype

from formulae.config import config
from formulae.categorical import Treatment
from formulae.utils import is_categorical_dtype


class Variable:
    """Representation of a variable in a model Term.

    This class and ``Call`` are the atomic components of a model term.

    Parameters
    ----------
    name: string
        The identifier of the variable.
    level: string
        The level to use as reference. Allows to use the notation ``variable["level"]`` to indicate
        which event should be model as success in binary response models. Can only be used with
        response terms. Defaults to ``None``.
    is_response: bool
        Indicates whether this variable represents a response. Defaults to ``False``.
    """

    def __init__(self, name, level=None, is_response=False):
        self.is_response = is_response
        self.name = name
        self.reference = level
        self.contrast_matrix = None
        self.kind = None
        self.levels = None
        self.spans_intercept = None
        self.value = None
        self._intermediate_data = None

    def __hash__(self):
        return hash((self.kind, self.name, self.reference))

    def __eq__(self, other):
        if not isinstance(other, type(self)):
            return False
        return (
            self.kind == other.kind
            and self.name == other.name
            and self.reference == other.reference
        )

    def __repr__(self):
        return self.__str__()

    def __str__(self):
        args = self.name
        if self.reference is not None:
            args += f", reference='{self.reference}'"
        return f"{self.__class__.__name__}({args})"

    @property
    def var_names(self):
        """Returns the name of the variable as a set.

        This is used to determine which variables of the data set being used are actually used in
        the model. This allows us to subset the original data set and only raise errors regarding
        missing values when the missingness happens in variables used in the model.
        """
        return {self.name}

    def set_type(self, data_mask):
        """Detemines the type of the variable.

        Looks for the name of the variable in ``data_mask`` and sets the ``.kind`` property to
        ``"numeric"`` or ``"categoric"`` depending on the type of the variable.
        It also stores the result of the intermediate evaluation in ``self._intermediate_data``.

        Parameters
        ----------
        data_mask: pd.DataFrame
            The data frame where variables are taken from
        """
        x = data_mask[self.name]
        if is_numeric_dtype(x):
            self.kind = "numeric"
        elif is_string_dtype(x) or is_categorical_dtype(x):
            self.kind = "categoric"
        else:
            raise ValueError(f"Variable is of an unrecognized type ({type(x)}).")
        self._intermediate_data = x

    def set_data(self, spans_intercept=None):
        """Obtains and stores the final data object related to this variable.

        Parameters
        ----------
        spans_intercept: bool
            Indicates if the encoding of categorical variables spans the intercept or not.
            Omitted when the variable is numeric.
        """

        try:
            if self.kind is None:
                raise ValueError("Variable type is not set.")
            if self.kind not in ["numeric", "categoric"]:
                raise ValueError(f"Variable is of an unrecognized type ({self.kind}).")
            if self.kind == "numeric":
                self.eval_numeric(self._intermediate_data)
            elif self.kind == "categoric":
                self.eval_categoric(self._intermediate_data, spans_intercept)
        except:
            print("Unexpected error while trying to evaluate a Variable.", sys.exc_info()[0])
            raise

    def eval_numeric(self, x):
        """Finishes evaluation of a numeric variable.

        Converts the intermediate values in ``x`` into a 1d numpy array.

        Parameters
        ----------
        x: np.ndarray or pd.Series
            The intermediate values of the variable.
        """
        if isinstance(x, np.ndarray):
            self.value = x
        elif isinstance(x, pd.Series):
            self.value = x.values
        else:
            raise ValueError(f"Variable is of an unrecognized type ({type(x)}).")

    def eval_categoric(self, x, spans_intercept):
        """Finishes evaluation of a categoric variable.

        Converts the intermediate values in ``x`` into a numpy array of shape ``(n, p)``, where
        ``n`` is the number of observations and ``p`` the number of dummy variables used in the
        numeric representation of the categorical variable.

        Parameters
        ----------
        x: np.ndarray or pd.Series
            The intermediate values of the variable.
        spans_intercept: bool
            Indicates if the encoding of categorical variables spans the intercept or not.
            Omitted when the variable is numeric.
        """
        # If not ordered, we make it ordered.
        if not hasattr(x.dtype, "ordered") or not x.dtype.ordered:
            categories = sorted(np.unique(x).tolist())
            dtype = pd.api.types.CategoricalDtype(categories=categories, ordered=True)
            x = pd.Categorical(x).astype(dtype)
        else:
            x = pd.Categorical(x)

        self.levels = x.categories.tolist()

        # Result of 'variable[level]' is always binary
        if self.is_response and self.reference is not None:
            value = np.where(x == self.reference, 1, 0)
        else:
            # Treatment encoding by default
            treatment = Treatment()
            if spans_intercept:
                self.contrast_matrix = treatment.code_with_intercept(self.levels)
            else:
                self.contrast_matrix = treatment.code_without_intercept(self.levels)
            value = self.contrast_matrix.matrix[x.codes]

        self.value = value
        self.spans_intercept = spans_intercept

    def eval_new_data(self, data_mask):
        """Evaluates the variable with new data.

        This method evaluates the variable within a new data mask. If this object is categorical,
        original encoding is remembered (and checked) when carrying out the new evaluation.

        Parameters
        ----------
        data_mask: pd.DataFrame
            The data frame where variables are taken from

        Returns
        ----------
        result: np.array
            The rules for the shape of this array are the rules for ``self.eval_numeric()`` and
            ``self.eval_categoric()``. The first applies for numeric variables, the second for
            categoric ones.
        """
        x = data_mask[self.name]
        if self.kind == "numeric":
            return self.eval_new_data_numeric(x)
        else:
            return self.eval_new_data_categoric(x)

    def eval_new_data_numeric(self, x):
        return np.asarray(x)

    def eval_new_data_categoric(self, x):
        """Evaluates the variable with new data when variable is categoric.

        This method also checks the levels observed in the new data frame are included within the
        set of the levels of the original data set. If not, an error is raised.

        x: np.ndarray or pd.Series
            The intermediate values of the variable.

        Returns
        ----------
        result: np.array
            Numeric numpy array ``(n, p)``, where ``n`` is the number of observations and ``p`` the
            number of dummy variables used in the numeric representation of the categorical
            variable.
        """
        new_data_levels = set(x)
        original_levels = set(self.levels)
        difference = new_data_levels - original_levels

        if not difference:
            idxs = pd.Categorical(x, categories=self.levels).codes
            return self.contrast_matrix.matrix[idxs]

        if config["EVAL_UNSEEN_CATEGORIES"] == "error":
            difference = [str(x) for x in difference]
            raise ValueError(
                f"The levels ({', '.join(difference)}) in '{self.name}' are not present in the "
                "original data set."
            )
        # When there's an unseen category it will first use it as if it was the first category
        # so we can still index 'contrast_matrix.matrix' but then it will replace all the values
        # in there with all zeros.

        # pandas uses '-1' for unseen levels
        idxs_original = pd.Categorical(x, categories=self.levels).codes
        idxs_modified = np.copy(idxs_original)
        idxs_modified[idxs_original == -1] = 0
        contribution = self.contrast_matrix.matrix[idxs_modified]
        contribution[idxs_original == -1] = 0

        if config["EVAL_UNSEEN_CATEGORIES"] == "warning":
            difference = [str(x) for x in difference]
            warnings.warn(
                f"The levels ({', '.join(difference)}) in '{self.name}' are not present in the "
                "original data set. It's impossible to select appropriate contrasts for them. "
                "Setting all the indicator variables to zero."
            )
        return contribution

    @property
    def labels(self):
        """Obtain labels of the columns in the design matrix associated with this Variable"""
        labels = None
        if self.kind == "numeric":
            if self.value.ndim == 2 and self.value.shape[1] > 1:
                labels = [f"{self.name}[{i}]" for i in range(self.value.shape[1])]
            else:
                labels = [self.name]
        elif self.kind == "categoric":
            labels = [f"{self.name}[{label}]" for label in self.contrast_matrix.labels]

        return labels

import sys
import warnings

import numpy as np
import pandas as pd

from pandas.api.types import is_numeric_dtype, is_string_dtype

from formulae.categorical import ENCODINGS, CategoricalBox, Treatment
from formulae.config import config
from formulae.environment import Environment
from formulae.transforms import TRANSFORMS, Proportion, Offset
from formulae.terms.call_utils import CallVarsExtractor
from formulae.utils import is_categorical_dtype


class Call:
    """Representation of a call in a model Term.

    This class and ``Variable`` are the atomic components of a model term.

    This object supports stateful transformations defined in ``formulae.transforms``.
    A transformation of this type defines its parameters the first time it is called,
    and then can be used to recompute the transformation with memorized parameter values.
    This behavior is useful when implementing a predict method and using transformations such
    as ``center(x)`` or ``scale(x)``. ``center(x)`` memorizes the value of the mean, and
    ``scale(x)`` memorizes both the mean and the standard deviation.

    Parameters
    ----------
    call: formulae.terms.call_resolver.LazyCall
        The call expression returned by the parser.
    is_response: bool
        Indicates whether this call represents a response. Defaults to ``False``.
    """

    def __init__(self, call, is_response=False):
        self.call = call
        self.is_response = is_response
        self.name = str(self.call)
        self.contrast_matrix = None
        self.env = None
        self.kind = None
        self.levels = None
        self.spans_intercept = None
        self.value = None
        self._intermediate_data = None

    def __hash__(self):
        return hash(self.call)

    def __eq__(self, other):
        if not isinstance(other, type(self)):
            return False
        return self.call == other.call

    def __repr__(self):
        return self.__str__()

    def __str__(self):
        return f"{self.__class__.__name__}({self.name})"

    def accept(self, visitor):
        """Accept method called by a visitor.

        Visitors are those available in call_utils.py, and are used to work with call terms.
        """
        return visitor.visitCallTerm(self)

    @property
    def var_names(self):
        """Returns the names of the variables involved in the call, not including the callee.

        This is used to determine which variables of the data set being used are actually used in
        the model. This allows us to subset the original data set and only raise errors regarding
        missing values when the missingness happens in variables used in the model.

        Uses a visitor of class ``CallVarsExtractor`` that walks through the components of the call
        and returns a list with the name of the variables in the call.

        Returns
        ----------
        result: list
            A list of strings with the names of the names of the variables in the call, not
            including the name of the callee.
        """
        return set(CallVarsExtractor(self).get())

    def set_type(self, data_mask, env):
        """Evaluates function and determines the type of the result of the call.

        Evaluates the function call and sets the ``.kind`` property to ``"numeric"`` or
        ``"categoric"`` depending on the type of the result. It also stores the intermediate result
        of the evaluation in ``._intermediate_data`` to prevent us from computing the same thing
        more than once.

        Parameters
        ----------
        data_mask: pd.DataFrame
            The data frame where variables are taken from
        env: Environment
            The environment where values and functions are taken from.
        """
        # We initialize an environment where transformations and encodings are available first
        # This makes sure formulae uses the internal objects instead of objects that may be
        # available in the namespace where 'design_matrices' is called.
        transforms_env = Environment([{**TRANSFORMS, **ENCODINGS}])
        self.env = transforms_env.with_outer_namespace(env.namespace)
        x = self.call.eval(data_mask, self.env)

        if is_numeric_dtype(x):
            self.kind = "numeric"
        elif is_string_dtype(x) or is_categorical_dtype(x) or isinstance(x, CategoricalBox):
            self.kind = "categoric"
        elif isinstance(x, Offset):
            self.kind = "offset"
            x.set_size(len(data_mask.index))
        elif isinstance(x, Proportion):
            self.kind = "proportion"
        else:
            raise ValueError(f"Call result is of an unrecognized type ({type(x)}).")
        self._intermediate_data = x

    def set_data(self, spans_intercept=False):
        """Finishes the evaluation of the call according to its type.

        It does not support multi-level categoric responses yet.
        If ``self.is_response`` is ``True`` and the variable is of a categoric type, this method
        returns a 1d array of 0-1 instead of a matrix.
        # XTODO: Fix previous point
        In practice, it just completes the evaluation that started with ``self.set_type()``.

        Parameters
        ----------
        spans_intercept: bool
            Indicates if the encoding of categorical variables spans the intercept or not.
            Omitted when the variable is numeric.
        """
        try:
            if self.kind is None:
                raise ValueError("Call result type is not set.")
            if self.kind == "numeric":
                self.eval_numeric(self._intermediate_data)
            elif self.kind == "categoric":
                if isinstance(self._intermediate_data, CategoricalBox):
                    self.eval_categorical_box(self._intermediate_data, spans_intercept)
                else:
                    self.eval_categoric(self._intermediate_data, spans_intercept)
            elif self.kind == "offset":
                self.eval_offset(self._intermediate_data)
            elif self.kind == "proportion":
                self.eval_proportion(self._intermediate_data)
            else:
                raise ValueError(f"Call result is of an unrecognized type ({self.kind}).")
        except:
            print("Unexpected error while trying to evaluate a Call:", sys.exc_info()[0])
            raise

    def eval_numeric(self, x):
        """Finishes evaluation of a numeric call.

        Converts the intermediate values of the call into a numpy array of shape ``(n, 1)``,
        where ``n`` is the number of observations. This method is used both in ``self.set_data``
        and in ``self.eval_new_data``.

        Parameters
        ----------
        x: np.ndarray or pd.Series
            The intermediate values resulting from the call.

        Returns
        ----------
        result: dict
            A dictionary with keys ``"value"`` and ``"kind"``. The first contains the result of the
            evaluation, and the latter is equal to ``"numeric"``.
        """
        if isinstance(x, np.ndarray):
            self.value = x
        elif isinstance(x, pd.Series):
            self.value = x.values
        else:
            raise ValueError(f"Call result is of an unrecognized type ({type(x)}).")

    def eval_categoric(self, x, spans_intercept):
        """Finishes evaluation of categoric call.

        First, it checks whether the intermediate evaluation returned is ordered. If not, it
        creates a category where the levels are the observed in the variable. They are sorted
        according to ``sorted()`` rules.

        Then, it determines the reference level as well as all the other levels. If the variable
        is a response, the value returned is a dummy with 1s for the reference level and 0s
        elsewhere. If it is not a response variable, it determines the matrix of dummies according
        to the levels and the encoding passed.

        Parameters
        ----------
        x: np.ndarray or pd.Series
            The intermediate values of the variable.
        spans_intercept: bool
            Indicates if the encoding of categorical variables spans the intercept or not.
            Omitted when the variable is numeric.
        """

        # If not ordered, we make it ordered.
        if not hasattr(x.dtype, "ordered") or not x.dtype.ordered:
            categories = sorted(np.unique(x).tolist())
            dtype = pd.api.types.CategoricalDtype(categories=categories, ordered=True)
            x = pd.Categorical(x).astype(dtype)
        else:
            x = pd.Categorical(x)

        self.levels = x.categories.tolist()

        treatment = Treatment()
        if spans_intercept:
            self.contrast_matrix = treatment.code_with_intercept(self.levels)
        else:
            self.contrast_matrix = treatment.code_without_intercept(self.levels)

        self.value = self.contrast_matrix.matrix[x.codes]
        self.spans_intercept = spans_intercept

    def eval_categorical_box(self, box, spans_intercept):
        data = box.data
        levels = box.levels
        contrast = box.contrast

        if contrast is None:
            contrast = Treatment()

        if levels is None:
            categories = sorted(list(set(data)))
        else:
            categories = levels

        dtype = pd.api.types.CategoricalDtype(categories=categories, ordered=True)
        data = pd.Categorical(data).astype(dtype)
        self.levels = categories

        if spans_intercept:
            self.contrast_matrix = contrast.code_with_intercept(categories)
        else:
            self.contrast_matrix = contrast.code_without_intercept(categories)

        self.value = self.contrast_matrix.matrix[data.codes]
        self.spans_intercept = spans_intercept

    def eval_proportion(self, proportion):
        if not self.is_response:
            raise ValueError("'proportion()' can only be used as a response term.")
        self.value = proportion.eval()

    def eval_offset(self, offset):
        if self.is_response:
            raise ValueError("offset() cannot be used as a response term.")
        self.value = offset.eval()

    def eval_new_data(self, data_mask):
        """Evaluates the function call with new data.

        This method evaluates the function call within a new data mask. If the transformation
        applied is a stateful transformation, it uses the proper object that remembers all
        parameters or settings that may have been set in a first pass.

        Parameters
        ----------
        data_mask: pd.DataFrame
            The data frame where variables are taken from

        Returns
        ----------
        result: np.array
            The rules for the shape of this array are the rules for ``self.eval_numeric()`` and
            ``self.eval_categoric()``. The first applies for numeric calls, the second for
            categoric ones.
        """
        if self.kind in ["numeric", "categoric"]:
            x = self.call.eval(data_mask, self.env)
            if self.kind == "numeric":
                result = self.eval_new_data_numeric(x)
            elif isinstance(x, CategoricalBox):
                result = self.eval_new_data_categorical_box(x)
            else:
                result = self.eval_new_data_categoric(x)
        elif self.kind == "offset":
            result = self.eval_new_data_offset(data_mask)
        elif self.kind == "proportion":
            result = self.eval_new_data_proportion(data_mask)

        return result

    def eval_new_data_numeric(self, x):
        return np.asarray(x)

    def eval_new_data_categoric(self, x):
        """Evaluates the call with new data when the result of the call is categoric.

        This method also checks the levels observed in the new data frame are included within the
        set of the levels of the result of the original call If not, an error is raised.

        x: np.ndarray or pd.Series
            The intermediate values of the variable.

        Returns
        ----------
        result: np.array
            Numeric numpy array ``(n, p)``, where ``n`` is the number of observations and ``p`` the
            number of dummy variables used in the numeric representation of the categorical
            variable.
        """
        new_data_levels = set(x)
        original_levels = set(self.levels)
        difference = new_data_levels - original_levels

        if not difference:
            idxs = pd.Categorical(x, categories=self.levels).codes
            return self.contrast_matrix.matrix[idxs]

        if config["EVAL_UNSEEN_CATEGORIES"] == "error":
            difference = [str(x) for x in difference]
            raise ValueError(
                f"The levels ({', '.join(difference)}) in '{self.name}' are not present in the "
                "original data set."
            )
        # When there's an unseen category it will first use it as if it was the first category
        # so we can still index 'contrast_matrix.matrix' but then it will replace all the values
        # in there with all zeros.

        # pandas uses '-1' for unseen levels
        idxs_original = pd.Categorical(x, categories=self.levels).codes
        idxs_modified = np.copy(idxs_original)
        idxs_modified[idxs_original == -1] = 0
        contribution = self.contrast_matrix.matrix[idxs_modified]
        contribution[idxs_original == -1] = 0

        if config["EVAL_UNSEEN_CATEGORIES"] == "warning":
            difference = [str(x) for x in difference]
            warnings.warn(
                f"The levels ({', '.join(difference)}) in '{self.name}' are not present in the "
                "original data set. It's impossible to select appropriate contrasts for them. "
                "Setting all the indicator variables to zero."
            )
        return contribution

    def eval_new_data_categorical_box(self, x):
        return self.eval_new_data_categoric(x.data)

    def eval_new_data_offset(self, data_mask):
        if self._intermediate_data.kind == "constant":
            # Return value passed as the argument
            result = np.ones(len(data_mask.index)) * self.call.args[0].value
        else:
            # This works both for LazyVariable (offset(x)) and LazyCall (offset(np.log(x)))
            offset = self.call.eval(data_mask, self.env)  # returns instance of Offset
            values = offset.eval()
            if isinstance(values, pd.Series):
                values = values.to_numpy()
            result = values
        return result

    def eval_new_data_proportion(self, data_mask):
        if self._intermediate_data.trials_type == "constant":
            # Return value passed in the second component
            result = np.ones(len(data_mask.index)) * self.call.args[1].value
        else:
            # Extract name of the second component
            name = self.call.args[1].name
            values = data_mask[name]
            if isinstance(values, pd.Series):
                values = values.values
            result = values
        return result

    @property
    def labels(self):
        """Obtain labels of the columns in the design matrix associated with this Call"""
        labels = None
        if self.kind in ["numeric", "offset"]:
            if self.value.ndim == 2 and self.value.shape[1] > 1:
                labels = [f"{self.name}[{i}]" for i in range(self.value.shape[1])]
            else:
                labels = [self.name]
        elif self.kind == "categoric":
            labels = [f"{self.name}[{label}]" for label in self.contrast_matrix.labels]

        return labels

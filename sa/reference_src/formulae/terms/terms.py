# pylint: disable = too-many-lines
import itertools
import logging

from copy import deepcopy
from functools import reduce
from itertools import combinations, product

import numpy as np
from scipy import linalg

from formulae.utils import get_interaction_matrix
from formulae.contrasts import pick_contrasts

from formulae.terms.call import Call
from formulae.terms.variable import Variable

_log = logging.getLogger("formulae")

# XTODO: Components have 'value' and terms have 'data'... which one should be kept?
class Intercept:
    """Internal representation of a model intercept."""

    def __init__(self):
        self.name = "Intercept"
        self.kind = "intercept"
        self.data = None
        self.len = None

    def __eq__(self, other):
        return isinstance(other, type(self))

    def __hash__(self):
        return hash(self.kind)

    def __add__(self, other):
        """Addition operator.

        Generally this operator is used to explicitly add an intercept to a model. There may be
        cases where the result is not a ``Model``, or does not contain an intercept.

        * ``"1 + 0"`` and ``"1 + (-1)"`` return an empty model.
        * ``"1 + 1"`` returns a single intercept.
        * ``"1 + x"`` and ``"1 + (x|g)"`` returns a model with both the term and the intercept.
        * ``"1 + (x + y)"`` adds an intercept to the model given by ``x`` and ``y``.
        """
        if isinstance(other, NegatedIntercept):
            return Model()
        elif isinstance(other, type(self)):
            return self
        elif isinstance(other, (Term, GroupSpecificTerm)):
            return Model(self, other)
        elif isinstance(other, Model):
            return Model(self) + other
        else:  # pragma: no cover
            return NotImplemented

    def __sub__(self, other):
        """Subtraction operator.

        This operator removes an intercept from a model if the given model has an intercept.

        * ``"1 - 1"`` returns an empty model.
        * ``"1 - 0"`` and ``"1 - (-1)"`` return an intercept.
        * ``"1 - (x + y)"`` returns the model given by ``x`` and ``y`` unchanged.
        * ``"1 - (1 + x + y)"`` returns the model given by ``x`` and ``y``, removing the intercept.
        """
        if isinstance(other, type(self)):
            return Model()
        elif isinstance(other, (NegatedIntercept, Term, GroupSpecificTerm)):
            return self
        elif isinstance(other, Model):
            if any(isinstance(term, type(self)) for term in other.common_terms):
                return Model()
            else:
                return self
        else:  # pragma: no cover
            return NotImplemented

    def __or__(self, other):
        """Group-specific interaction-like operator. Creates a group-specific intercept.

        This operation is usually surrounded by parenthesis. It is not actually required. They
        are always used because ``|`` has lower precedence than any of the other operators except
        ``~``.

        This operator is distributed over the right-hand side, which means ``(1|g + h)`` is
        equivalent to ``(1|g) + (1|h)``.
        """
        if isinstance(other, Term):
            return GroupSpecificTerm(self, other)
        elif isinstance(other, Model):
            products = product([self], other.common_terms)
            terms = [GroupSpecificTerm(p[0], p[1]) for p in products]
            return Model(*terms)
        else:  # pragma: no cover
            return NotImplemented

    def __repr__(self):  # pragma: no cover
        return self.__str__()

    def __str__(self):  # pragma: no cover
        return f"{self.__class__.__name__}()"

    @property
    def var_names(self):
        """Returns empty set, no variables are used in the intercept."""
        return set()

    def set_type(self, data, env):  # pylint: disable = unused-argument
        """Sets length of the intercept."""
        # Nothing goes here as the type is given by the class.
        self.len = data.shape[0]

    def set_data(self, encoding):  # pylint: disable = unused-argument
        """Creates data for the intercept.

        It sets ``self.data`` equal to a numpy array of ones of length ``(self.len, 1)``.
        """
        self.data = np.ones(self.len, dtype=int)

    def eval_new_data(self, data):
        """Returns data for a new intercept.

        The length of the new intercept is given by the number of rows in ``data``.
        """
        return np.ones(data.shape[0], dtype=int)

    @property
    def labels(self):
        return ["Intercept"]


class NegatedIntercept:
    """Internal representation of the opposite of a model intercept.

    This object is created whenever we use ``"0"`` or ``"-1"`` in a model formula. It is not
    expected to appear in a final model. It's here to help us make operations using the
    ``Intercept`` and deciding when to keep it and when to drop it.
    """

    def __init__(self):
        self.name = "NegatedIntercept"
        self.kind = "intercept"

    def __add__(self, other):
        """Addition operator.

        Generally this operator is used to explicitly remove an from a model.

        * ``"0 + 1"`` returns an empty model.
        * ``"0 + 0"`` returns a negated intercept
        * ``"0 + x"`` returns a model that includes the negated intercept.
        * ``"0 + (x + y)"`` adds an the negated intercept to the model given by ``x`` and ``y``.

        No matter the final result contains the negated intercept, for example if we do something
        like ``"y ~ 0 + x + y + 0"``, the ``Model`` that is obtained removes any negated intercepts
        thay may have been left. They just don't make sense in a model.
        """
        if isinstance(other, type(self)):
            return self
        elif isinstance(other, Intercept):
            return Model()
        elif isinstance(other, (Term, GroupSpecificTerm)):
            return Model(self, other)
        elif isinstance(other, Model):
            return Model(self) + other
        else:  # pragma: no cover
            return NotImplemented

    def __eq__(self, other):
        return isinstance(other, type(self))

    def __hash__(self):
        return hash(self.name)

    def __or__(self, other):
        raise ValueError("At least include an intercept in '|' operation")

    def __repr__(self):  # pragma: no cover
        return self.__str__()

    def __str__(self):  # pragma: no cover
        return f"{self.__class__.__name__}()"

    @property
    def var_names(self):  # pragma: no cover
        # This method should never be called. Returning set() to avoid harmless error.
        return set()

    def set_type(self, *args, **kwargs):  # pylint: disable = unused-argument # pragma: no cover
        # This method should never be called. Returning None to avoid harmless error.
        return None

    def set_data(self, *args, **kwargs):  # pylint: disable = unused-argument # pragma: no cover
        # This method should never be called. Returning None to avoid harmless error.
        return None


class Term:
    """Representation of a model term.

    Terms are made of one or more components. Components are instances of :class:`.Variable` or
    :class:`.Call`. Terms with only one component are known as main effects and terms with more than
    one component are known as interaction effects. The order of the interaction is given by the
    number of components in the term.

    Parameters
    ----------
    components: :class:`.Variable` or :class:`.Call`
        Atomic components of a term.

    Attributes
    ----------
    data: np.ndarray
        The values associated with the term as they go into the design matrix.
    kind: string
        Indicates the type of the term.
        Can be one of ``"numeric"``, ``"categoric"``, or ``"interaction"``.
    name: string
        The name of the term as it was originally written in the model formula.
    """

    def __init__(self, *components):
        self.components = []
        for component in components:
            if component not in self.components:
                self.components.append(component)
        self.data = None
        self.kind = None
        self.name = ":".join([str(component.name) for component in self.components])

    def __hash__(self):
        return hash(tuple(self.components))

    def __eq__(self, other):
        if not isinstance(other, type(self)):
            return False
        else:
            return self.components == other.components

    def __add__(self, other):
        """Addition operator. Analogous to set union.

        * ``"x + x"`` is equal to just ``"x"``
        * ``"x + y"`` is equal to a model with both ``x`` and ``y``.
        * ``"x + (y + z)"`` adds ``x`` to model already containing ``y`` and ``z``.
        """
        # x + x -> x
        # x + y -> x + y
        # x:y + u -> x:y + u
        # x:y + u:v -> x:y + u:v
        # x:y + (u + v) -> x:y + u + v
        # f(x) + y -> f(x) + y
        # f(x) + (y + z) -> f(x) + y + z
        if self == other:
            return self
        elif isinstance(other, (type(self), GroupSpecificTerm, Intercept, NegatedIntercept)):
            # "x + 1" and "x + 0" appear in the expr side of group-specific terms: (x + 0 | g)
            return Model(self, other)
        elif isinstance(other, Model):
            return Model(self) + other
        else:  # pragma: no cover
            return NotImplemented

    def __sub__(self, other):
        """Subtraction operator. Analogous to set difference.

        * ``"x - x"`` returns empty model.
        * ``"x - y"`` returns the term ``"x"``.
        * ``"x - (y + z)"`` returns the term ``"x"``.
        """
        # x:y - u -> x:y
        # x:y - u:v -> x:y
        # x:y - (u + v) -> x:y
        # f(x) - y -> f(x)
        # f(x) - (y + z) -> f(x)
        if isinstance(other, type(self)):
            if self.components == other.components:
                return Model()
            else:
                return self
        elif isinstance(other, Model):
            if self in other.terms:
                return Model()
            else:
                return self
        elif isinstance(other, Intercept):
            # "x - 1" removes the intercept, like "x + 0"
            return Model(self, NegatedIntercept())
        elif isinstance(other, GroupSpecificTerm):
            return self
        else:  # pragma: no cover
            return NotImplemented

    def __mul__(self, other):
        """Full interaction operator.

        This operator includes both the interaction as well as the main effects involved in the
        interaction. It is a shortcut for ``x + y + x:y``.

        * ``"x * x"`` equals to ``"x"``
        * ``"x * y"`` equals to``"x + y + x:y"``
        * ``"x:y * u"`` equals to ``"x:y + u + x:y:u"``
        * ``"x:y * u:v"`` equals to ``"x:y + u:v + x:y:u:v"``
        * ``"x:y * (u + v)"`` equals to ``"x:y + u + v + x:y:u + x:y:v"``
        """
        if self == other:
            return self
        elif isinstance(other, type(self)):
            if len(other.components) == 1 and isinstance(other.components[0].name, (int, float)):
                raise TypeError("Interaction with numeric does not make sense.")
            return Model(self, other, Term(*deepcopy(self.components), *deepcopy(other.components)))
        elif isinstance(other, Model):
            products = product([self], other.common_terms)
            terms = [self] + other.common_terms
            iterms = [
                Term(*deepcopy(p[0].components), *deepcopy(p[1].components)) for p in products
            ]
            return Model(*terms) + Model(*iterms)
        else:  # pragma: no cover
            return NotImplemented

    def __matmul__(self, other):
        """Simple interaction operator.

        This operator is actually invoked as ``:`` but internally passed as ``@`` because there
        is no ``:`` operator in Python.

        * ``"x : x"`` equals to ``"x"``
        * ``"x : y"`` is the interaction between ``"x"`` and ``"y"``
        * ``x:(y:z)"`` equals to ``"x:y:z"``
        * ``(x:y):u"`` equals to ``"x:y:u"``
        * ``"(x:y):(u + v)"`` equals to ``"x:y:u + x:y:v"``
        """
        if self == other:
            return self
        elif isinstance(other, type(self)):
            if len(other.components) == 1 and isinstance(other.components[0].name, (int, float)):
                raise TypeError("Interaction with numeric does not make sense.")
            return Term(*self.components, *other.components)
        elif isinstance(other, Model):
            products = product([self], other.common_terms)
            iterms = [
                Term(*deepcopy(p[0].components), *deepcopy(p[1].components)) for p in products
            ]
            return Model(*iterms)
        else:  # pragma: no cover
            return NotImplemented

    def __truediv__(self, other):
        """Division interaction operator.

        * ``"x / x"`` equals to just ``"x"``
        * ``"x / y"`` equals to ``"x + x:y"``
        * ``"x / z:y"`` equals to ``"x + x:z:y"``
        * ``"x / (z + y)"`` equals to ``"x + x:z + x:y"``
        * ``"x:y / u:v"`` equals to ``"x:y + x:y:u:v"``
        * ``"x:y / (u + v)"`` equals to ``"x:y + x:y:u + x:y:v"``
        """
        if self == other:
            return self
        elif isinstance(other, type(self)):
            if len(other.components) == 1 and isinstance(other.components[0].name, (int, float)):
                raise TypeError("Interaction with numbers does not make sense.")
            return Model(self, Term(*deepcopy(self.components), *deepcopy(other.components)))
        elif isinstance(other, Model):
            products = product([self], other.common_terms)
            iterms = [
                Term(*deepcopy(p[0].components), *deepcopy(p[1].components)) for p in products
            ]
            return self + Model(*iterms)
        else:
            return NotImplemented

    def __or__(self, other):
        """Group-specific operator. Creates a group-specific term.

        Intercepts are implicitly added.

        * ``"x|g"`` equals to ``"(1|g) + (x|g)"``

        Distributive over right hand side

        * ``"(x|g + h)"`` equals to ``"(1|g) + (1|h) + (x|g) + (x|h)"``
        """
        if isinstance(other, Term):
            # Only accepts terms, call terms and interactions.
            # Adds implicit intercept.
            terms = [GroupSpecificTerm(Intercept(), other), GroupSpecificTerm(self, other)]
            return Model(*terms)
        elif isinstance(other, Model):
            intercepts = [
                GroupSpecificTerm(Intercept(), p[1]) for p in product([self], other.common_terms)
            ]
            slopes = [
                GroupSpecificTerm(deepcopy(p[0]), p[1]) for p in product([self], other.common_terms)
            ]
            return Model(*intercepts, *slopes)
        else:  # pragma: no cover
            return NotImplemented

    def __pow__(self, other):
        """Power operator.

        It leaves the term as it is. For a power in the math sense do ``I(x ** n)`` or ``{x ** n}``.
        """
        c = other.components
        if len(c) == 1 and isinstance(c[0].name, int) and c[0].name >= 1:
            _log.warning(
                "Exponentiation on an individual variable returns the variable as it is.\n"
                "Use {%s**%s} or I(%s**%s) to compute the math power.",
                self.name,
                c[0].name,
                self.name,
                c[0].name,
            )
            return self
        else:  # pragma: no cover
            return NotImplemented

    def __repr__(self):  # pragma: no cover
        return self.__str__()

    def __str__(self):  # pragma: no cover
        string = "[" + ", ".join([str(component) for component in self.components]) + "]"
        return f"{self.__class__.__name__}({string})"

    def set_type(self, data, env):
        """Set type of the components in the term.

        Calls ``.set_type()`` method on each component in the term. For those components of class
        :class:`.Variable`` it only passes the data mask. For `:class:`.Call` objects it also passes
        the evaluation environment.

        Parameters
        ----------
        data: pd.DataFrame
            The data frame where variables are taken from
        env: Environment
            The environment where values and functions are taken from.
        """
        # Set the type of the components by calling their set_type method.
        for component in self.components:
            if isinstance(component, Variable):
                component.set_type(data)
            elif isinstance(component, Call):
                component.set_type(data, env)
            else:
                raise ValueError(
                    "Can't set type on Term because at least one of the components "
                    f"is of the unexpected type {type(component)}."
                )

        # Determine whether this term is numeric, categoric, or an interaction.
        if len(self.components) > 1:
            self.kind = "interaction"
        else:
            self.kind = self.components[0].kind

    def set_data(self, spans_intercept):
        """Obtains and stores the final data object related to this term.

        Calls ``.set_data()`` method on each component in the term. Then, it uses the ``.data``
        attribute on each of them to build ``self.data`` and ``self.metadata``.

        Parameters
        ----------
        encoding: dict or bool
            Indicates if it uses full or reduced encoding when the type of the variable is
            categoric.
        """

        for component in self.components:
            spans_intercept_ = False
            if isinstance(spans_intercept, dict):
                spans_intercept_ = spans_intercept.get(component.name, False)
            elif isinstance(spans_intercept, bool):
                spans_intercept_ = spans_intercept
            else:
                raise ValueError(f"Encoding is of unexpected type {type(spans_intercept_)}.")

            component.set_data(spans_intercept_)

        if self.kind == "interaction":
            self.data = reduce(get_interaction_matrix, [c.value for c in self.components])
        else:
            self.data = self.components[0].value

    def eval_new_data(self, data):
        """Evaluates the term with new data.

        Calls ``.eval_new_data()`` method on each component in the term and combines the results
        appropiately.

        Parameters
        ----------
        data: pd.DataFrame
            The data frame where variables are taken from

        Returns
        ----------
        result: np.array
            The values resulting from evaluating this term using the new data.
        """
        if self.kind == "interaction":
            result = reduce(
                get_interaction_matrix, [c.eval_new_data(data) for c in self.components]
            )
        else:
            result = self.components[0].eval_new_data(data)
        return result

    def get_component(self, name):  # pylint: disable = inconsistent-return-statements
        """Returns a component by name.

        Parameters
        ----------
        name: string
            The name of the component to return.

        Returns
        -------
        component: `:class:`.Variable` or `:class:`.Call`
            The component with name ``name``.
        """

        for component in self.components:
            if component.name == name:
                return component

    @property
    def var_names(self):
        """Returns the name of the variables in the term as a set.

        Loops through each component and updates the set with the ``.var_names`` of each component.

        Returns
        ----------
        var_names: set
            The names of the variables involved in the term.
        """
        var_names = set().union(*[component.var_names for component in self.components])
        return var_names

    @property
    def labels(self):
        """Obtain labels of the columns in the design matrix associated with this Term"""
        if self.kind is None:
            labels = None
        elif self.kind == "interaction":
            labels = []
            for component in self.components:
                labels.append(component.labels)
            labels = [":".join(str_tuple) for str_tuple in list(itertools.product(*labels))]
        else:
            labels = self.components[0].labels
        return labels

    @property
    def levels(self):
        """Obtain levels of the columns in the design matrix associated with this Term

        It is like .labels, without the name of the terms
        """
        if self.kind is None or self.kind in ["numeric", "proportion"]:
            levels = None
        elif self.kind == "interaction":
            levels = []
            for component in self.components:
                if component.contrast_matrix is not None:
                    levels.append(component.contrast_matrix.labels)
                elif component.value.ndim == 2 and component.value.shape[1] > 1:
                    levels.append([str(i) for i in range(component.value.shape[1])])
            if levels:
                levels = [", ".join(str_tuple) for str_tuple in list(itertools.product(*levels))]
        else:
            component = self.components[0]
            # Response created with `y[level]`
            if hasattr(component, "reference") and component.reference is not None:
                levels = None
            else:
                levels = component.contrast_matrix.labels
        return levels

    @property
    def spans_intercept(self):
        """Does this term spans the intercept?

        True if all the components span the intercept
        """
        return all(component.spans_intercept for component in self.components)


class GroupSpecificTerm:
    """Representation of a group specific term.

    Group specific terms are of the form ``(expr | factor)``. The expression ``expr`` is evaluated
    as a model formula with only common effects and produces a model matrix following the rules
    for common terms. ``factor`` is inspired on factors in R, but here it is evaluated as an ordered
    pandas.CategoricalDtype object.

    The operator ``|`` works as in R package lme4. As its authors say: "One way to think about the
    vertical bar operator is as a special kind of interaction between the model matrix and the
    grouping factor. This interaction ensures that the columns of the model matrix have different
    effects for each level of the grouping factor"

    Parameters
    ----------
    expr: :class:`.Intercept` or :class:`.Term`
        The term for which we want to have a group specific term.
    factor: :class:`.Term`
        The factor that determines the groups in the group specific term.

    Attributes
    ----------
    data: np.ndarray
        The values associated with the term as they go into the design matrix.
    metadata: dict
        Metadata associated with the term. If ``"numeric"`` or ``"categoric"`` it holds additional
        information in the component ``.data`` attribute. If ``"interaction"``, the keys are
        the name of the components and the values are dictionaries holding the metadata.
    kind: string
        Indicates the type of the term. Can be one of ``"numeric"``, ``"categoric"``, or
        ``"interaction"``.
    """

    def __init__(self, expr, factor):
        self.expr = expr
        self.factor = factor
        self.data = None
        self.groups = None
        self.kind = None

    def __eq__(self, other):
        if not isinstance(other, type(self)):
            return False
        return self.expr == other.expr and self.factor == other.factor

    def __hash__(self):
        return hash((self.expr, self.factor))

    def __add__(self, other):
        """Addition operator. Analogous to set union."""
        if self == other:
            return self
        elif isinstance(other, (Term, type(self), Intercept, NegatedIntercept)):
            return Model(self, other)
        elif isinstance(other, Model):
            return Model(self) + other
        else:  # pragma: no cover
            return NotImplemented

    def __repr__(self):  # pragma: no cover
        return self.__str__()

    def __str__(self):  # pragma: no cover
        strlist = [
            f"expr= {'  '.join(str(self.expr).splitlines(True))}",
            f"factor= {'  '.join(str(self.factor).splitlines(True))}",
        ]
        return self.__class__.__name__ + "(\n  " + ",\n  ".join(strlist) + "\n)"

    def set_type(self, data, env):
        # Set type of 'factor'
        # Set type on each component of the factor to check data is behaved as expected and then
        # manually set their type to categoric.
        for component in self.factor.components:
            if isinstance(component, Variable):
                component.set_type(data)
            elif isinstance(component, Call):
                component.set_type(data, env)
            else:
                raise ValueError(
                    "Can't set type on GroupSpecificTerm because at least one of the components "
                    f"is of the unexpected type {type(component)}."
                )
            component.kind = "categoric"

        # Store the type of the components. Factors are considered categorical.
        if len(self.factor.components) > 1:
            self.factor.kind = "interaction"
        else:
            self.factor.kind = "categoric"

        # Set type of 'expr'
        self.expr.set_type(data, env)

    def set_data(self, spans_intercept):
        self.expr.set_data(spans_intercept)
        self.factor.set_data(True)  # Factor is a categorical term that always spans the intercept

        # Obtain group names. These are obtained from the labels of the contrast matrices
        groups = []
        for component in self.factor.components:
            groups.append(component.contrast_matrix.labels)
        self.groups = [":".join(s) for s in list(itertools.product(*groups))]

        Xi, Ji = self.expr.data, self.factor.data
        if Xi.ndim == 1:
            Xi = Xi[:, np.newaxis]
        if Ji.ndim == 1:
            Ji = Ji[:, np.newaxis]

        self.data = linalg.khatri_rao(Ji.T, Xi.T).T  # Zi
        self.kind = self.expr.kind

    def eval_new_data(self, data):
        """Evaluates the term with new data.

        Converts the variable in ``factor`` to the type remembered from the first evaluation and
        produces the design matrix for this grouping, calls ``.eval_new_data()`` on ``self.expr``
        to obtain the design matrix for the ``expr`` side, then computes the design matrix
        corresponding to the group specific effect.

        Parameters
        ----------
        data: pd.DataFrame
            The data frame where variables are taken from.

        Returns
        -------
        Zi: np.ndarray
        """
        Xi = self.expr.eval_new_data(data)
        Ji = self.factor.eval_new_data(data)

        # If a row contains ALL zeroes, then it indicates that is a new, unseen, group.
        all_zeros = ~Ji.any(axis=1)
        if all_zeros.any():
            Ji = np.column_stack([Ji, np.zeros((Ji.shape[0], 1), dtype="int")])
            Ji[all_zeros, -1] = 1

        if Xi.ndim == 1:
            Xi = Xi[:, np.newaxis]
        if Ji.ndim == 1:
            Ji = Ji[:, np.newaxis]
        Zi = linalg.khatri_rao(Ji.T, Xi.T).T
        return Zi

    @property
    def var_names(self):
        """Returns the name of the variables in the term as a set.

        Obtains both the variables in the ``expr`` as well as the variables in ``factor``.

        Returns
        ----------
        var_names: set
            The names of the variables involved in the term.
        """
        expr_names = self.expr.var_names.copy()
        factor_names = self.factor.var_names.copy()
        return expr_names.union(factor_names)

    @property
    def name(self):
        """Obtain string representation of the name of the term.

        Returns
        ----------
        name: str
            The name of the term, such as ``1|g`` or ``var|g``.
        """
        name = ""
        if isinstance(self.expr, Intercept):
            name += "1|"
        elif isinstance(self.expr, Term):
            name += f"{self.expr.name}|"
        else:
            raise ValueError("Invalid LHS expression for group specific term")

        if isinstance(self.factor, Term):
            name += self.factor.name
        else:
            raise ValueError("Invalid RHS expression for group specific term")
        return name

    @property
    def labels(self):
        if self.kind is None:
            labels = None
        if self.kind == "intercept":
            levels = ["1"]
        else:
            levels = self.expr.labels
        labels = [f"{level}|{group}" for group in self.factor.labels for level in levels]
        return labels


class Response:
    """Representation of a response term.

    It is mostly a wrapper around :class:`.Term`.

    Parameters
    ----------
    term: :class:`.Term`
        The term we want to take as response in the model. Must contain only one component.

    """

    def __init__(self, term):
        if isinstance(term, Term):
            n = len(term.components)
            if n == 1:
                self.term = term
                self.term.components[0].is_response = True
            else:
                raise ValueError(f"The response term must contain only one component, not {n}.")
        else:
            raise ValueError(f"The response term must be of class Term, not {type(term)}.")

    def __eq__(self, other):
        if not isinstance(other, type(self)):
            return False
        else:
            return self.term == other.term

    def __add__(self, other):
        """Modelled as operator.

        The operator is ``~``, but since it is not an operator in Python, we internally replace it
        with ``+``. It means the LHS is taken as the response, and the RHS as the predictor.
        """
        if isinstance(other, (Term, GroupSpecificTerm, Intercept)):
            return Model(other, response=self)
        elif isinstance(other, Model):
            return other.add_response(self)
        else:  # pragma: no cover
            return NotImplemented

    def __repr__(self):  # pragma: no cover
        return self.__str__()

    def __str__(self):  # pragma: no cover
        return f"{self.__class__.__name__}({self.term})"

    @property
    def var_names(self):
        """Returns the name of the variables in the response as a set."""
        return self.term.var_names

    def set_type(self, data, env):
        """Set type of the response term."""
        self.term.set_type(data, env)

    def set_data(self):
        """Set data of the response term."""
        self.term.set_data(spans_intercept=True)


ACCEPTED_TERMS = (Term, GroupSpecificTerm, Intercept, NegatedIntercept)


class Model:
    """Representation of a model.

    Parameters
    ----------
    terms: :class:`.Term`
        This object can be instantiated with one or many terms.
    response::class:`.Response`
        The response term. Defaults to ``None`` which means there is no response.
    """

    def __init__(self, *terms, response=None):
        if isinstance(response, Response) or response is None:
            self.response = response
        else:
            raise ValueError("Response must be of class Response.")
        if all(isinstance(term, ACCEPTED_TERMS) for term in terms):
            self.common_terms = [term for term in terms if not isinstance(term, GroupSpecificTerm)]
            self.group_terms = [term for term in terms if isinstance(term, GroupSpecificTerm)]
        else:
            raise ValueError("There is a least one term of an unexpected class.")

    def __eq__(self, other):
        if not isinstance(other, type(self)):
            return False
        equal_terms = set(self.terms) == set(other.terms)
        equal_response = self.response == other.response
        return equal_terms and equal_response

    def __add__(self, other):
        """Addition operator. Analogous to set union.

        Adds terms to the model and returns the model.

        Returns
        -------
        self: :class:`.Model`
            The same model object with the added term(s).
        """
        if isinstance(other, NegatedIntercept):
            return self - Intercept()
        elif isinstance(other, (Term, GroupSpecificTerm, Intercept)):
            return self.add_term(other)
        elif isinstance(other, type(self)):
            for term in other.terms:
                self.add_term(term)
            return self
        else:  # pragma: no cover
            return NotImplemented

    def __sub__(self, other):
        """Subtraction operator. Analogous to set difference.

        * ``"(x + y) - (x + u)"`` equals to ``"y + u"``..
        * ``"(x + y) - x"`` equals to ``"y"``.
        * ``"(x + y + (1 | g)) - (1 | g)"`` equals to ``"x + y"``.

        Returns
        -------
        self: :class:`.Model`
            The same model object with the removed term(s).
        """
        if isinstance(other, type(self)):
            for term in other.terms:
                if term in self.common_terms:
                    self.common_terms.remove(term)
                if term in self.group_terms:
                    self.group_terms.remove(term)
            return self
        elif isinstance(other, (Term, Intercept)):
            if other in self.common_terms:
                self.common_terms.remove(other)
            return self
        elif isinstance(other, GroupSpecificTerm):
            if other in self.group_terms:
                self.group_terms.remove(other)
            return self
        else:  # pragma: no cover
            return NotImplemented

    def __matmul__(self, other):
        """Simple interaction operator.

        * ``"(x + y) : (u + v)"`` equals to ``"x:u + x:v + y:u + y:v"``.
        * ``"(x + y) : u"`` equals to ``"x:u + y:u"``.
        * ``"(x + y) : f(u)"`` equals to ``"x:f(u) + y:f(u)"``.

        Returns
        -------
        model: :class:`.Model`
            A new instance of the model with all the interaction terms computed.
        """
        if isinstance(other, type(self)):
            products = product(self.common_terms, other.common_terms)
            iterms = [
                Term(*deepcopy(p[0].components), *deepcopy(p[1].components)) for p in products
            ]
            return Model(*iterms)
        elif isinstance(other, Term):
            products = product(self.common_terms, [other])
            iterms = [
                Term(*deepcopy(p[0].components), *deepcopy(p[1].components)) for p in products
            ]
            return Model(*iterms)
        else:  # pragma: no cover
            return NotImplemented

    def __mul__(self, other):
        """Full interaction operator.

        * ``"(x + y) * (u + v)"`` equals to ``"x + y + u + v + x:u + x:v + y:u + y:v"``.
        * ``"(x + y) * u"`` equals to ``"x + y + u + x:u + y:u"``.

        Returns
        -------
        model: :class:`.Model`
            A new instance of the model with all the interaction terms computed.
        """
        if self == other:
            return self
        elif isinstance(other, type(self)):
            if len(other.common_terms) == 1:
                components = other.common_terms[0].components
                if len(components) == 1 and isinstance(components, (int, float)):
                    raise TypeError("Interaction with numeric does not make sense.")
            products = product(self.common_terms, other.common_terms)
            terms = self.common_terms + other.common_terms
            iterms = [
                Term(*deepcopy(p[0].components), *deepcopy(p[1].components)) for p in products
            ]
            return Model(*terms) + Model(*iterms)
        elif isinstance(other, Term):
            if len(other.components) == 1 and isinstance(other.components[0].name, (int, float)):
                raise TypeError("Interaction with numeric does not make sense.")
            products = product(self.common_terms, [other])
            terms = self.common_terms + [other]
            iterms = [
                Term(*deepcopy(p[0].components), *deepcopy(p[1].components)) for p in products
            ]
            return Model(*terms) + Model(*iterms)
        else:  # pragma: no cover
            return NotImplemented

    def __pow__(self, other):
        """Power of a set made of :class:`.Term`

        Computes all interactions up to order ``n`` between the terms in the set.

        * ``"(x + y + z) ** 2"`` equals to ``"x + y + z + x:y + x:z + y:z"``.

        Returns
        -------
        model: :class:`.Model`
            A new instance of the model with all the terms computed.
        """
        if isinstance(other, Term) and len(other.components) == 1:
            value = other.components[0].name
            if isinstance(value, int) and value >= 1:
                comb = [
                    list(p) for i in range(2, value + 1) for p in combinations(self.common_terms, i)
                ]
            iterms = [
                Term(*[deepcopy(comp) for term in terms for comp in term.components])
                for terms in comb
            ]
            return self + Model(*iterms)
        else:
            raise ValueError("Power must be a positive integer.")

    def __truediv__(self, other):
        """Division interaction operator.

        * ``"(x + y) / z"`` equals to ``"x + y + x:y:z"``.
        * ``"(x + y) / (u + v)"`` equals to ``"x + y + x:y:u + x:y:v"``.

        Returns
        -------
        model: :class:`.Model`
            A new instance of the model with all the terms computed.
        """
        if isinstance(other, Term):
            return self.add_term(
                Term(*deepcopy(self.common_components), *deepcopy(other.components))
            )
        elif isinstance(other, Model):
            iterms = [
                Term(*deepcopy(self.common_components), deepcopy(comp))
                for comp in other.common_components
            ]
            return self + Model(*iterms)
        else:  # pragma: no cover
            return NotImplemented

    def __or__(self, other):
        """Group specific term operator.

        Only _models_ ``"0 + x"`` arrive here.

        * ``"(0 + x | g)"`` equals to ``"(x|g)"``.
        * ``"(0 + x | g + y)"`` equals to ``"(x|g) + (x|y)"``.

        There are several edge cases to handle here. See in-line comments.

        Returns
        -------
        model: :class:`.Model`
            A new instance of the model with all the terms computed.
        """

        # If only one term in the expr, resolve according to the type of the term.
        if len(self.common_terms) == 1:
            return self.common_terms[0] | other

        # Handle intercept
        if Intercept() in self.common_terms and NegatedIntercept() in self.common_terms:
            # Explicit addition and negation -> remove both -> no intercept
            self.common_terms.remove(Intercept())
            self.common_terms.remove(NegatedIntercept())
        elif NegatedIntercept() in self.common_terms:
            # Negation -> remove negation and do not add intercept
            self.common_terms.remove(NegatedIntercept())
        elif Intercept() not in self.common_terms:
            # No negation and no explicit intercept -> implicit intercept
            self.common_terms.insert(0, Intercept())
        if isinstance(other, Term):
            products = product(self.common_terms, [other])
            terms = [GroupSpecificTerm(p[0], p[1]) for p in products]
            return Model(*terms)
        elif isinstance(other, type(self)):
            products = product(self.common_terms, other.common_terms)
            terms = [GroupSpecificTerm(deepcopy(p[0]), p[1]) for p in products]
            return Model(*terms)
        else:  # pragma: no cover
            return NotImplemented

    def __repr__(self):  # pragma: no cover
        return self.__str__()

    def __str__(self):  # pragma: no cover
        terms = [str(term) for term in self.common_terms]
        if self.response is not None:
            terms.insert(0, str(self.response))
        string = ",\n  ".join([str(term) for term in terms])

        if self.group_terms:
            group_terms = ",\n".join([str(term) for term in self.group_terms])
            if len(string) > 0:
                string += ",\n  "
            string += "  ".join(group_terms.splitlines(True))

        return f"{self.__class__.__name__}(\n  {string}\n)"

    def add_response(self, term):
        """Add response term to model description.

        This method is called when something like ``"y ~ x + z"`` appears in a model formula.

        This method is called via special methods such as :meth:`Response.__add__`.

        Returns
        -------
        self: :class:`.Model`
            The same model object but now with a response term.
        """
        if isinstance(term, Response):
            self.response = term
            return self
        else:
            raise ValueError("not Response")

    def add_term(self, term):
        """Add term to model description.

        The term added can be of class :class:`.Intercept` :class:`.Term`, or
        :class:`.GroupSpecificTerm`. It appends the new term object to the list of common terms or
        group specific terms as appropriate.

        This method is called via special methods such as :meth:`__add__`.

        Returns
        -------
        self: :class:`.Model`
            The same model object but now containing the new term.
        """
        if isinstance(term, GroupSpecificTerm):
            if term not in self.group_terms:
                self.group_terms.append(term)
            return self
        elif isinstance(term, (Term, Intercept)):
            if term not in self.common_terms:
                self.common_terms.append(term)
            return self
        else:
            raise ValueError(f"Can't add an object of class {type(term)} to Model.")

    @property
    def terms(self):
        """Terms in the model.

        Returns
        -------
        terms: list
            A list containing both common and group specific terms.
        """
        return self.common_terms + self.group_terms

    @property
    def common_components(self):
        """Components in common terms in the model.

        Returns
        -------
        components: list
            A list containing all components from common terms in the model.
        """
        return [c for term in self.common_terms if isinstance(term, Term) for c in term.components]

    @property
    def var_names(self):
        """Get the name of the variables in the model.

        Returns
        -------
        var_names: set
            The names of all variables in the model.
        """

        var_names = set()
        for term in self.terms:
            var_names.update(term.var_names)
        if self.response is not None:
            var_names.update(self.response.var_names)
        return var_names

    def set_types(self, data, env):
        """Set the type of the terms in the model.

        Calls ``.set_type()`` method on term in the model.

        Parameters
        ----------
        data: pd.DataFrame
            The data frame where variables are taken from
        env: Environment
            The environment where values and functions are taken from.
        """
        for term in self.terms:
            term.set_type(data, env)

    def _get_encoding_groups(self):
        components = {}
        # This is not the best fix, but we need the intercept to be in the first position
        common_terms = self.common_terms.copy()
        intercept_idx = -1
        for i, term in enumerate(common_terms):
            if isinstance(term, Intercept):
                intercept_idx = i
                break

        if intercept_idx != -1:
            common_terms.insert(0, common_terms.pop(intercept_idx))

        for term in common_terms:
            if term.kind == "interaction":
                components[term.name] = {c.name: c.kind for c in term.components}
            else:
                components[term.name] = term.kind

        # First, group with only categoric terms
        categoric_group = {}
        for k, v in components.items():
            if v == "categoric":
                categoric_group[k] = [k]
            elif v == "intercept":
                categoric_group[k] = []
            elif isinstance(v, dict):  # interaction
                # If all categoric terms in the interaction
                if all(v_ == "categoric" for v_ in v.values()):
                    categoric_group[k] = list(v.keys())

        # Determine groups of numerics
        numeric_group_sets = []
        numeric_groups = []
        for k, v in components.items():
            # v is dict when interaction, otherwise is string.
            if isinstance(v, dict):
                categoric = [k_ for k_, v_ in v.items() if v_ == "categoric"]
                numeric = [k_ for k_, v_ in v.items() if v_ == "numeric"]
                # if it is an interaction with both categoric and numeric terms
                if categoric and numeric:
                    numeric_set = set(numeric)
                    numeric_part = ":".join(numeric)
                    if numeric_set not in numeric_group_sets:
                        numeric_group_sets.append(numeric_set)
                        numeric_groups.append({})
                    idx = numeric_group_sets.index(numeric_set)
                    # Prevent full encoding when numeric part is present outside
                    # this numeric-categoric interaction
                    if numeric_part in components:
                        numeric_groups[idx][numeric_part] = []
                    numeric_groups[idx][k] = categoric

        return [categoric_group] + numeric_groups

    def _get_encoding_bools(self):
        """Determine encodings for terms containing at least one categorical variable.

        This method returns dictionaries with ``True``/``False`` values.
        ``True`` means the categorical variable spans the intercept.
        ``False`` means the categorial variable does not span the intercept.
        """
        groups = self._get_encoding_groups()
        l = [pick_contrasts(group) for group in groups]
        result = {}
        for d in l:
            result.update(d)
        return result

    def add_extra_terms(self, encodings, data, env):
        # Adds additional terms in the common part in case they're needed for full rankness
        common_terms = self.common_terms.copy()
        for term in common_terms:
            encoding = encodings.get(term.name)
            if hasattr(encoding, "__len__") and len(encoding) > 1:
                # Last encoding is the one for the original term
                for subencoding in encoding[:-1]:
                    extra_term = create_extra_term(term, subencoding, data, env)
                    self.common_terms.insert(self.common_terms.index(term), extra_term)

    def eval(self, data, env):
        """Evaluates terms in the model.

        Parameters
        ----------
        data: pd.DataFrame
            The data frame where variables are taken from
        env: Environment
            The environment where values and functions are taken from.
        """
        # Set types on all terms
        self.set_types(data, env)

        # Evaluate common terms
        encodings = self._get_encoding_bools()
        self.add_extra_terms(encodings, data, env)

        # Need to get encodings again after creating possible extra terms
        encodings = self._get_encoding_bools()

        for term in self.common_terms:
            if term.name in encodings:
                # Since we added extra terms before, we can assume 'encodings' has lists of length 1
                encoding = encodings[term.name][0]
            else:
                encoding = False
            term.set_data(encoding)

        # Evaluate group-specific terms
        for term in self.group_terms:
            encoding = True
            # If both (1|g) and (x|g) are in the model, then the encoding for x is False.
            if not isinstance(term.expr, Intercept):
                for t in self.group_terms:
                    if t.factor == term.factor and isinstance(t.expr, Intercept):
                        encoding = False
            term.set_data(encoding)


def create_extra_term(term, encoding, data, env):
    """
    If there are numeric components it means this is an interaction term that has both numeric
    and categoric components. The categoric part of the term we create comes in 'encoding', we
    then need to add the numeric ones.

    For example, if we have 'h' and 'j' categoric and 'x' numeric and then we do 'x + h:j:x',
    it expands to 'x + j:x + h:j:x' for full-rankness.
    """
    component_names = [component.name for component in term.components]
    components = [term.get_component(name) for name in component_names if name in encoding.keys()]
    components += [component for component in term.components if component.kind == "numeric"]
    extra_term = Term(*deepcopy(components))
    extra_term.set_type(data, env)
    return extra_term

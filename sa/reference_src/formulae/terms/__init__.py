from .call import Call
from .terms import Intercept, NegatedIntercept, Term, GroupSpecificTerm, Response, Model
from .variable import Variable

__all__ = [
    "Variable",
    "Call",
    "Intercept",
    "NegatedIntercept",
    "Term",
    "GroupSpecificTerm",
    "Response",
    "Model",
]

import operator

from formulae.expr import Assign


class CallResolverError(Exception):
    pass


class LazyOperator:
    """Unary and Binary lazy operators.

    Functions calls like ``a + b`` are converted into a LazyOperator that is resolved when you
    explicitly evaluates it.

    Parameters
    ----------
    op: builtin_function_or_method
        An operator in the ``operator`` built-in module. It can be one of ``add``, ``pos``, ``sub``,
        ``neg``, ``pow``, ``mul``, and ``truediv``.
    args:
        One or two lazy instances.
    """

    SYMBOLS = {
        "add": "+",
        "pos": "+",
        "sub": "-",
        "neg": "-",
        "pow": "**",
        "mul": "*",
        "truediv": "/",
        "eq": "==",
        "ne": "!=",
        "le": "<=",
        "lt": "<",
        "ge": ">=",
        "gt": ">",
    }

    # Binding strength of the operators as they are parsed within a call. Unary operators bind
    # tighter than any binary operator. All the binary operators are left-associative.
    PRECEDENCE = {
        "==": 1,
        "!=": 1,
        "<=": 1,
        "<": 1,
        ">=": 1,
        ">": 1,
        "+": 2,
        "-": 2,
        "*": 3,
        "/": 3,
        "**": 4,
    }
    UNARY_PRECEDENCE = 5

    def __init__(self, op, *args):
        self.op = op
        self.args = args
        self.symbol = self.SYMBOLS[op.__name__]

    @property
    def precedence(self):
        if len(self.args) == 1:
            return self.UNARY_PRECEDENCE
        return self.PRECEDENCE[self.symbol]

    def _str_operand(self, arg, is_right):
        """Wrap an operand in parentheses when it is needed to spell the same expression"""
        if isinstance(arg, LazyOperator):
            if arg.precedence < self.precedence or (arg.precedence == self.precedence and is_right):
                return f"({arg})"
        return str(arg)

    def __str__(self):
        if len(self.args) == 1:
            return f"{self.symbol}{self._str_operand(self.args[0], False)}"
        else:
            left = self._str_operand(self.args[0], False)
            right = self._str_operand(self.args[1], True)
            return f"{left} {self.symbol} {right}"

    def __hash__(self):
        return hash((self.symbol, *self.args))

    def __eq__(self, other):
        if not isinstance(other, type(self)):
            return False
        return self.symbol == other.symbol and self.args == other.args

    def accept(self, visitor):
        return visitor.visitLazyOperator(self)

    def eval(self, data_mask, env):
        """Evaluates the operation.

        Evaluates the arguments involved in the operation, calls the Python operator, and returns
        the result.

        Parameters
        ----------
        data_mask: pd.DataFrame
            The data frame where variables are taken from
        env: Environment
            The environment where values and functions are taken from.

        Returns
        -------
        result:
            The value obtained from the operator call.
        """
        return self.op(*[arg.eval(data_mask, env) for arg in self.args])


class LazyVariable:
    """Lazy variable name.

    The variable represented in this object does not hold any value until it is explicitly evaluated
    within a data mask and an evaluation environment.

    Parameters
    ----------
    name: str
        The name of the variable it represents.
    """

    def __init__(self, name):
        self.name = name

    def __str__(self):
        return self.name

    def __hash__(self):
        return hash((self.name))

    def __eq__(self, other):
        return isinstance(other, type(self)) and self.name == other.name

    def accept(self, visitor):
        return visitor.visitLazyVariable(self)

    def eval(self, data_mask, env):
        """Evaluates variable.

        First it looks for the variable in ``data_mask``. If not found there, it looks in
        ``env``. Then it just returns the value the variable represents in either the
        data mask or the evaluation environment.

        Parameters
        ----------
        data_mask: pd.DataFrame
            The data frame where variables are taken from
        env: Environment
            The environment where values and functions are taken from.

        Returns
        -------
        result:
            The value represented by this name in either the data mask or the environment.
        """
        try:
            result = data_mask[self.name]
        except KeyError:
            try:
                result = env.namespace[self.name]
            except KeyError as e:
                raise e
        return result


class LazyValue:
    """Lazy representation of a value in Python.

    This object holds a value (a string or a number).
    It returns its value only when it is evaluated via ``.eval()``.

    Parameters
    ----------
    value: string or numeric
        The value it holds.
    lexeme: string
        The string that generated the value it holds
    """

    def __init__(self, value, lexeme):
        self.value = value
        self.lexeme = lexeme

    def __str__(self):
        if self.lexeme is not None:
            return self.lexeme
        return str(self.value)

    def __hash__(self):
        return hash((self.value, self.lexeme))

    def __eq__(self, other):
        return (
            isinstance(other, type(self))
            and self.value == other.value
            and self.lexeme == other.lexeme
        )

    def accept(self, visitor):
        return visitor.visitLazyValue(self)

    def eval(self, *args, **kwargs):  # pylint: disable = unused-argument
        """Evaluates the value.

        Simply returns the value. Other arguments are ignored but required for consistency
        among all the lazy objects.

        Returns
        -------
        value:
            The value this obejct represents.
        """
        return self.value


class LazyCall:
    """Lazy representation of a function call.

    This class represents a function that can be a stateful transform (a function with memory)
    whose arguments can also be stateful transforms.

    To evaluate these functions we don't create a string representing Python code and let ``eval()``
    run it. We take care of all the steps of the evaluation to make sure all the possibly nested
    stateful transformations are handled correctly.

    Parameters
    ----------
    callee: string
        The name of the function
    args: list
        A list of lazy objects that are evaluated when calling the function this object represents.
    kwargs: dict
        A dictionary of named arguments that are evaluated when calling the function this object
        represents.
    """

    def __init__(self, callee, args, kwargs):
        self.callee = callee
        self.args = args
        self.kwargs = kwargs
        self.stateful_transform = None

    def __str__(self):
        args = [str(arg) for arg in self.args]
        kwargs = [f"{name}={str(arg)}" for name, arg in self.kwargs.items()]
        return f"{self.callee}({', '.join(args + kwargs)})"

    def __hash__(self):
        return hash((self.callee, *self.args, *self.kwargs))

    def __eq__(self, other):
        if not isinstance(other, type(self)):
            return False
        return (
            self.callee == other.callee and self.args == other.args and self.kwargs == other.kwargs
        )

    def accept(self, visitor):
        return visitor.visitLazyCall(self)

    def eval(self, data_mask, env):
        """Evaluate the call.

        This method first evaluates all its arguments, which are themselves lazy objects, and then
        proceeds to evaluate the call it represents.

        Parameters
        ----------
        data_mask: pd.DataFrame
            The data frame where variables are taken from
        env: Environment
            The environment where values and functions are taken from.

        Returns
        -------
        result:
            The result of the call evaluation.
        """
        callee = get_function_from_module(self.callee, env)

        # Store stateful transformation
        if (
            hasattr(callee, "__stateful_transform__")
            and callee.__stateful_transform__
            and self.stateful_transform is None
        ):
            self.stateful_transform = callee()

        if self.stateful_transform:
            callee = self.stateful_transform

        args = [arg.eval(data_mask, env) for arg in self.args]
        kwargs = {name: arg.eval(data_mask, env) for name, arg in self.kwargs.items()}

        return callee(*args, **kwargs)


class CallResolver:
    """Visitor that walks an AST representing a regular call and returns a lazy version of it."""

    BINARY_OPERATORS = {
        "PLUS": operator.add,
        "MINUS": operator.sub,
        "STAR_STAR": operator.pow,
        "STAR": operator.mul,
        "SLASH": operator.truediv,
        "EQUAL_EQUAL": operator.eq,
        "BANG_EQUAL": operator.ne,
        "LESS_EQUAL": operator.le,
        "LESS": operator.lt,
        "GREATER_EQUAL": operator.ge,
        "GREATER": operator.gt,
    }

    UNARY_OPERATORS = {"PLUS": operator.pos, "MINUS": operator.neg}

    def __init__(self, expr):
        self.expr = expr

    def resolve(self):
        return self.expr.accept(self)

    def visitGroupingExpr(self, expr):
        return expr.expression.accept(self)

    def visitBinaryExpr(self, expr):
        otype = expr.operator.kind
        op = self.BINARY_OPERATORS.get(otype)
        if op is None:
            raise CallResolverError(f"Can't resolve call with binary expression of type '{otype}'")
        return LazyOperator(op, expr.left.accept(self), expr.right.accept(self))

    def visitUnaryExpr(self, expr):
        otype = expr.operator.kind
        op = self.UNARY_OPERATORS.get(otype)
        if op is None:
            raise CallResolverError(f"Can't resolve call with unary expression of type '{otype}'")
        return LazyOperator(op, expr.right.accept(self))

    def visitCallExpr(self, expr):
        args = []
        kwargs = {}
        for arg in expr.args:
            if isinstance(arg, Assign):
                kwargs[arg.name.name.lexeme] = arg.value.accept(self)
            else:
                args.append(arg.accept(self))
        return LazyCall(expr.callee.name.lexeme, args, kwargs)

    def visitVariableExpr(self, expr):
        return LazyVariable(expr.name.lexeme)

    def visitLiteralExpr(self, expr):
        return LazyValue(expr.value, expr.lexeme)

    def visitQuotedNameExpr(self, expr):
        return LazyVariable(expr.expression.lexeme[1:-1])


def get_function_from_module(name, env):
    names = name.split(".")
    if len(names) == 1:
        fun = env.namespace[names[0]]
    else:
        module_name = names[0]
        function_name = names[-1]
        inner_modules_names = names[1:-1]

        module = env.namespace[module_name]

        if inner_modules_names:
            inner_module = getattr(module, inner_modules_names[0])
            for inner_module_name in inner_modules_names[1:]:
                inner_module = getattr(inner_module, inner_module_name)
            fun = getattr(inner_module, function_name)
        else:
            fun = getattr(module, function_name)
    return fun

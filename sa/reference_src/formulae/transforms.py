import inspect

import numpy as np
import pandas as pd

from pandas.api.types import is_numeric_dtype
from scipy.interpolate import splev

from formulae.categorical import CategoricalBox, Sum, Treatment

TRANSFORMS = {}


def is_class_callable(cls):
    members = (member[0] for member in inspect.getmembers(cls))
    return "__call__" in members


# Stateful transformations.
# These transformations have memory about the state of parameters that are
# required to compute the transformation and are obtained as a subproduct of the
# data that is used to compute the transform.
def register_stateful_transform(cls):
    assert isinstance(cls, type), "Can only decorate classes"
    assert is_class_callable(cls), "The class must implement a __call__ method"
    key = cls.__transform_name__ if hasattr(cls, "__transform_name__") else cls.__name__
    cls.__stateful_transform__ = True
    TRANSFORMS[key] = cls
    return cls


@register_stateful_transform
class Center:
    __transform_name__ = "center"

    def __init__(self):
        self.params_set = False
        self.mean = None

    def __call__(self, x):
        if not self.params_set:
            self.mean = np.mean(x)
            self.params_set = True
        return x - self.mean


@register_stateful_transform
class Scale:
    __transform_name__ = "scale"

    def __init__(self):
        self.params_set = False
        self.mean = None
        self.std = None

    def __call__(self, x):
        if not self.params_set:
            self.mean = np.mean(x)
            self.std = np.std(x)
            self.params_set = True
        return (x - self.mean) / self.std


# The following are just regular functions that are made available
# in the environment where the formula is evaluated.
def I(x):
    """Identity function. Returns its argument as it is.

    This allows to call Python code within the formula interface.
    This is an allias for ``{x}``, which does exactly the same, but in a more concise manner.

    Examples
    ----------

    >>> x + I(x**2)
    >>> x + {x**2}
    >>> {(x + y) / z}
    """
    return x


def C(data, contrast=None, levels=None):
    if isinstance(data, CategoricalBox):
        if contrast is None:
            contrast = data.contrast
        if levels is None:
            levels = data.levels
        data = data.data
    return CategoricalBox(data, contrast, levels)


def S(data, omit=None, levels=None):
    """Convert to categorical using Treatment encoding

    It is a shorthand for C(x, Sum)
    """
    return CategoricalBox(data, Sum(omit), levels)


def T(data, ref=None, levels=None):
    """Convert to categorical using Treatment encoding

    It is a shorthand for C(x, Treatment)
    """
    return CategoricalBox(data, Treatment(ref), levels)


def binary(x, success=None):
    """Make a variable binary

    Parameters
    ----------
    x: pd.Series
        The object containing the variable to be converted to binary.
    success: str, numeric or None
        The success level. When the variable is equal to this level, the binary variable is 1.
        All the rest are 0. Defaults to ``None`` which means formulae is going to sort all the
        values in the variable and pick the first one as success.

    Returns
    -------
    x: np.array
        A 0-1 numpy array with shape ``(n, 1)`` where ``n`` is the number of observations.
    """
    if success is None:
        categories = sorted(x.unique().tolist())
        success = categories[0]
    booleans = x == success
    if not sum(booleans):
        raise ValueError(f"No value in 'x' is equal to \"{success}\"")
    return np.where(booleans, 1, 0)


class Proportion:
    """Representation of a proportion term.

    Parameters
    ----------
    successes: ndarray
        1D array containing data with ``int`` dtype.
    trials: ndarray
        1D array containing data with ``int`` dtype. Its values must be equal or larger than the
        values in ``successes``
    trials_type: str
        Indicates whether ``trials`` is a constant value or not. It can be either ``"constant"``
        or ``"variable"``.
    """

    def __init__(self, successes, trials, trials_type):
        if not (np.mod(successes, 1) == 0).all():
            raise ValueError("'successes' must be a collection of integer numbers")

        if not (np.mod(trials, 1) == 0).all():
            raise ValueError("'trials' must be a collection of integer numbers")

        if not (np.less_equal(successes, trials)).all():
            raise ValueError("'successes' cannot be greater than 'trials'")

        self.successes = successes
        self.trials = trials
        self.trials_type = trials_type

    def eval(self):
        return np.vstack([self.successes, self.trials]).T


def proportion(successes, trials):
    """Create a term that represents the proportion ``successes/trials``.

    This function is actually a wrapper of class ``Proportion`` that checks its arguments.

    Parameters
    ----------
    successes: pd.Series
        The number of successes for each observation unit.
    trials: pd.Series or int
        The number of trials for each observation unit. If ``int``, this function internally
        generates an array of the same length than ``successes``.
    """
    # If this function does not receive a pd.Series, it means the user didn't pass a name in the
    # formula interface

    if not isinstance(successes, pd.Series):
        raise ValueError("'successes' must be a variable name.")
    successes = successes.values

    if isinstance(trials, pd.Series):
        trials = trials.values
        trials_type = "variable"
    elif isinstance(trials, int):
        trials = np.ones(len(successes), dtype=int) * trials
        trials_type = "constant"
    else:
        raise ValueError("'trials' must be a variable name or an integer.")

    return Proportion(successes, trials, trials_type)


class Offset:
    def __init__(self, x):
        self.size = None
        if not (is_numeric_dtype(x) or isinstance(x, (int, float))):
            raise ValueError("offset() can only be used with numeric variables.")

        if isinstance(x, pd.Series):
            self.x = x.values
            self.kind = "variable"
        elif isinstance(x, (int, float)):
            self.x = x
            self.kind = "constant"
        else:
            raise ValueError("'x' must be a variable name or a number.")

    def eval(self):
        if self.kind == "variable":
            return self.x.flatten()
        else:
            return np.ones((self.size, 1)) * self.x

    def set_size(self, size):
        self.size = size


def offset(x):
    return Offset(x)


@register_stateful_transform
class BSpline:
    """B-Spline representation

    Generates a B-spline basis for ``x``, allowing non-linear fits. The usual
    usage is something like::

        y ~ 1 + bs(x, 4)

    to fit ``y`` as a smooth function of ``x``, with 4 degrees of freedom
    given to the smooth.

    Parameters
    ----------
    x: 1D array-like
        The data.
    df: The number of degrees of freedom to use for this spline. The return value will have this
        many columns. You must specify at least one of ``df`` and ``knots``.
    knots: 1D array-like or None
        The interior knots to use for the spline. If unspecified, then equally spaced quantiles of
        the input data are used. You must specify at least one of ``df`` and ``knots`
    degree: int
        Degree of the piecewise polynomial. Default is 3 for cubic splines.
    intercept: bool
        If ``True``, an intercept is included in the basis. Default is ``False``.
    lower_bound:
        The lower exterior knot location.
    upper_bound:
        The upper exterior knot location.
    """

    __transform_name__ = "bs"

    def __init__(self):
        self.params_set = False
        self._intercept = None
        self._degree = None
        self._knots = None

    def __call__(
        self, x, df=None, knots=None, degree=3, intercept=False, lower_bound=None, upper_bound=None
    ):
        if not self.params_set:
            self._initialize(x, df, knots, degree, intercept, lower_bound, upper_bound)
        return self.eval(x)

    def _initialize(self, x, df, knots, degree, intercept, lower_bound, upper_bound):

        if not isinstance(degree, int):
            raise ValueError(f"'degree' must be an integer, not {type(degree)}")

        if degree < 0:
            raise ValueError(f"'degree' must be greater than 0, not {degree}")

        if df is None and knots is None:
            raise ValueError("Must specify either 'df' or 'knots'")

        if df and not isinstance(df, int):
            raise ValueError("'df' must be either None or integer")
        # XTODO: Check the type of knots.

        order = degree + 1

        if df is not None:
            n_inner_knots = df - order
            if not intercept:
                n_inner_knots += 1
            if n_inner_knots < 0:
                # We know that n_inner_knots is negative;
                # If df were that much larger, it would have been zero, and things would work.
                raise ValueError(
                    f"df={df} is too small for degree={degree} and intercept={intercept}; "
                    f"it must be >= {df - n_inner_knots}"
                )

            # User specified 'df' AND 'knots'
            if knots is not None:
                if len(knots) != n_inner_knots:
                    raise ValueError(
                        f"df={df} with degree={degree} implies {n_inner_knots} knots; "
                        f"but {len(knots)} were provided"
                    )
            # User specified 'df' but NOT 'knots'
            else:
                knot_quantiles = np.linspace(0, 1, n_inner_knots + 2)[1:-1]
                inner_knots = np.percentile(x, 100 * np.asarray(knot_quantiles))

        if knots is not None:
            inner_knots = knots

        if lower_bound is None:
            lower_bound = np.min(x)

        if upper_bound is None:
            upper_bound = np.max(x)

        if lower_bound > upper_bound:
            raise ValueError(f"'lower_bound' > 'upper_bound' ({lower_bound} > {upper_bound})")

        inner_knots = np.asarray(inner_knots)
        if inner_knots.ndim > 1:
            raise ValueError("'knots' must be 1 dimensional")

        if np.any(inner_knots < lower_bound):
            raise ValueError(
                f"Some knot values {inner_knots[inner_knots < lower_bound]} "
                f"fall below lower bound {lower_bound}"
            )

        if np.any(inner_knots > upper_bound):
            raise ValueError(
                f"Some knot values {inner_knots[inner_knots > upper_bound]} "
                f"fall above upper bound {upper_bound}"
            )

        all_knots = np.concatenate(([lower_bound, upper_bound] * order, inner_knots))
        all_knots.sort()

        self._intercept = intercept
        self._degree = degree
        self._knots = all_knots
        self.params_set = True

    def eval(self, x):
        n_bases = len(self._knots) - (self._degree + 1)
        basis = np.empty((x.shape[0], n_bases), dtype=float)
        for i in range(n_bases):
            coefs = np.zeros((n_bases,))
            coefs[i] = 1
            basis[:, i] = splev(x, (self._knots, coefs, self._degree))

        if not self._intercept:
            basis = basis[:, 1:]
        return basis


@register_stateful_transform
class Polynomial:
    """Polynomial transformation

    The computation of this transformation is borrowed from the implementation in the
    Formulaic library written by Matthew Wardrop.

    The original implementation and more documentation can be found here:
    https://github.com/matthewwardrop/formulaic/blob/main/formulaic/transforms/poly.py

    Parameters
    ----------
    x: 1d array-like
        The data.
    degree: int
        The degree of the polynomial terms to compute. If degree is k, with k > 1, this
        transformation computes the polinomials x^1, x^2, ...x^k.
    raw: bool
        Whether to use raw polynomials or orthonormal ones. Defaults to False.
    """

    __transform_name__ = "poly"

    def __init__(self):
        self.params_set = False
        self.degree = 1
        self.raw = False
        self.alpha = {}
        self.norms2 = {}

    def __call__(self, x, degree=1, raw=False):
        if not self.params_set:
            self.degree = degree
            self.raw = raw
        return self.eval(x)

    def eval(self, x):
        if self.raw:
            return np.column_stack([np.power(x, k) for k in range(1, self.degree + 1)])

        def get_alpha(k):
            if k not in self.alpha:
                self.alpha[k] = np.sum(x * P[:, k] ** 2) / np.sum(P[:, k] ** 2)
            return self.alpha[k]

        def get_norm(k):
            if k not in self.norms2:
                self.norms2[k] = np.sum(P[:, k] ** 2)
            return self.norms2[k]

        def get_beta(k):
            return get_norm(k) / get_norm(k - 1)

        P = np.empty((x.shape[0], self.degree + 1))
        P[:, 0] = 1

        for i in range(1, self.degree + 1):
            P[:, i] = (x - get_alpha(i - 1)) * P[:, i - 1]
            if i >= 2:
                P[:, i] -= get_beta(i - 1) * P[:, i - 2]

        P /= np.array([np.sqrt(get_norm(k)) for k in range(0, self.degree + 1)])
        return P[:, 1:]


TRANSFORMS.update(
    {
        "B": binary,
        "binary": binary,
        "C": C,
        "I": I,
        "offset": offset,
        "p": proportion,
        "prop": proportion,
        "proportion": proportion,
        "S": S,
        "standardize": Scale,
        "T": T,
    }
)

NOTES = (
    "Technique family: static analysis only. Every check re-parses /repo/formulae/**/*.py on each run and decides repository-specific rules on extracted program models; exit 2 + ANALYSIS-ERROR means the analysis itself is broken (anchor vanished, unmodelled idiom, instance count below floor). Set FORMULAE_SRC=<dir> to analyse another tree (used for seeded variants). Before the rules run, the parsed tree is normalised relative to a snapshot of the tree the rules were written against (sa/reference_src): new helper functions are inlined, new immutable constants propagated, new base classes flattened, and a function whose canonical form (sa/canon.py: semantics-preserving source-to-source rewrites on the AST/CFG) equals the snapshot's is analysed in its snapshot form; the snapshot only proves equivalences, the verdict is always about /repo's current tree. Surface syntax (match statements, assignment expressions, map / starmap / operator getters, generator pipelines, contextlib.suppress) is first rewritten into the plain forms the analyses read (sa/desugar.py)."
)
COMMON_NOTE = (
    "Trusted base: CPython's ast module, the hand-written catalogue of numpy/pandas/itertools semantics in /verif/sa, Python's operator-dispatch and hashing rules. Closed world: only the shipped package is analysed (user transforms / user functions are assumed pure and fit-once). Each rule is a necessary condition of the property, not a sufficient one."
)
CHECKS = [
    {
        'property_id': 'C01',
        'text': 'The grammar the recursive-descent parser denotes is extracted from its source (fail-closed IR, symbolic path summaries of every production) and decided once for all strings: precedence/associativity soundness w.r.t. the documented table, delimiter pairing, AST fidelity (nothing parsed is dropped or swapped), end-of-input check, cursor-primitive contracts, scanner token table (injective, raising default, whitespace-only skips, one token per lexeme helper), tilde count guard and implicit intercept, grouping transparency, total visitors. Thorough: bounded exhaustive comparison of the extracted grammar model against an independent Pratt parser. R1.12: the exponent of `**` is used or the formula is refused (term-set interpretation of the `**` overloads incl. the branch where the exponent is not a positive integer; reading an unbound local is a raising path). R1.4 also: the caller\'s formula string reaches Scanner(...) under its own parameter name, never re-bound, through design_matrices and model_description.',
        'design_ref': 'DESIGN.md section 3, C01 (R1.1-R1.11); later rules: sections 7.6-7.17',
        'note': COMMON_NOTE,
        'technique': 'grammar extraction by abstract interpretation of the parser source; path-summary rules; CFG dominance; token-table extraction; abstract evaluation of the implicit-intercept insertion on a symbolic token list',
    },
    {
        'property_id': 'C02',
        'text': 'Identity protocol (__eq__/__hash__ contracts, __eq__ compares every identity field as a whole) of the 12 classes used for term identity; dispatch completeness of the 7 operator overloads over the closed universe of 6 classes by type-level abstract interpretation (every operand shape the property quantifies over is supported; the 12 shapes that were unsupported on the pinned tree were repaired in /repo); expansion semantics: every overload is summarised by abstract interpretation in a term-set domain and compared with the documented Wilkinson-Rogers/lme4 expansion for 60 operand shapes (union, difference, a:b, a*b, a/b, **n, (e|g), ~); resolver operator map decided by partial evaluation of the dispatch per token kind (if-chain or lookup table alike); linear use of mutated sub-results; one-shot iterators consumed once (CFG reachability between consumers); duplicate-free containers. Not decided: term identity of call atoms beyond the protocol (value semantics of arguments). R2.7: the resolver hands the value of a parenthesised sub-expression on untouched (a temporary is used exactly once).',
        'design_ref': 'DESIGN.md section 3, C02 (R2.1-R2.5); section 7.2 (R2.6); section 4 F2-F5; later rules: sections 7.6-7.17',
        'note': COMMON_NOTE,
        'technique': 'abstract interpretation of operator overloads (dispatch table over 6 classes; term-set summaries vs documented expansion); AST protocol lint; CFG dominance of membership guards',
    },
    {
        'property_id': 'C11',
        'text': 'The lookup order (data > built-ins > caller locals > caller globals > extra_namespace, first match wins) is a syntactic fact of four list-building expressions and two loops; an abstract evaluation of list shapes decides it for all 2^5 scope subsets at once. Also decided: data-first for arguments only, getattr chain for dotted callees (symbolic evaluation for 1..5 name parts), no silent default on the resolution path, frame arithmetic of Environment.capture with its single call site (reference=1, directly in design_matrices), and that the captured environment is the one handed to every evaluation and reused at prediction. R11.8: every data column a call mentions is found by the used-variables extractor (else the name silently resolves in the environment). R11.9: nothing but the registered writers writes TRANSFORMS / ENCODINGS (writer scan of long-lived tables).',
        'design_ref': 'DESIGN.md section 3, C11 (R11.1-R11.7); later rules: sections 7.6-7.17',
        'note': COMMON_NOTE,
        'technique': 'abstract evaluation of list-construction shapes; AST/CFG structural rules; symbolic evaluation of the callee resolver over name-part counts; who-calls check',
    },
    {
        'property_id': 'C17',
        'text': "Slice bookkeeping is written at three sites; each loop body is evaluated abstractly in a domain of integer-linear / if-then-else / slice values (no solver): the stored value must be slice(S, S + W) under the term name for a loop-carried offset S that is 0 on entry and becomes S + W, W being the column count of the very block stacked for that term in the same iteration (the freshly evaluated one at prediction), same iteration order as the stacked blocks, no break/return. Also: label order = stacking order, every view reads the one design_matrix, unknown names are refused, the common matrix re-stacks the same terms in training order under the shared slices, printing has no assert/raise and uses the effect's real column count, one frame reaches all three matrices. Not decided: uniqueness of labels (depends on name injectivity, see C12) and numerical equality of the views. R17.8: one holder per component object (labels and slices are computed from different objects otherwise). R17.10: no axis-less squeeze on the evaluation path.",
        'design_ref': 'DESIGN.md section 3, C17 (R17.1-R17.6); section 4 F12; later rules: sections 7.6-7.17',
        'note': COMMON_NOTE,
        'technique': 'abstract interpretation of the three slice-building loop bodies in a linear/if-then-else/slice value domain; CFG dominance; sibling agreement; who-may-write',
    },
    {
        'property_id': 'C09',
        'text': "Policy skeleton and the 'used variables' computation: design_matrices (new helpers inlined) is partially evaluated for each value of na_action and evaluated abstractly: any other value raises before every other effect; under 'pass' the column selection description.var_names & data.columns reaches DesignMatrices unchanged; under 'drop' it is that frame filtered positionally by the negated any-missing mask of the same frame (unfiltered only on the no-missing path; a label-based drop is reported); 'error' raises ValueError exactly under the any-missing condition; one frame for all three matrices; the set of used variables is decided by a union algebra over the var_names functions and var_names completeness by holder coverage and visitor coverage (child-bearing fields of the lazy call tree derived from inferred field types, every one traversed). Not decided: where NaN lands under 'pass' and equality with the run on the reduced frame (runtime relations). R9.5: interaction columns are plain products and nothing on the numeric path tests for or replaces missing values; R9.4 also requires in-place updates of used-variable sets to hit sets created on the spot (freshness over all var_names implementations).",
        'design_ref': 'DESIGN.md section 3, C09 (R9.1-R9.4); later rules: sections 7.6-7.17',
        'note': COMMON_NOTE,
        'technique': 'partial evaluation of design_matrices per option value + abstract interpretation of the frame that reaches the constructor; union algebra for set-valued functions; visitor-coverage check driven by the type inference; freshness analysis of set-valued properties; NaN-masking lint on the numeric path',
    },
    {
        'property_id': 'C10',
        'text': "Policy plumbing: closed configuration (validated __setattr__, no other writer, default 'error'); every literal compared with the configuration is a declared value and the consumers raise / warn-and-fall-through as documented; zeroing discipline of both eval_new_data_categoric siblings (same mask for index patch and zeroing, fresh copy of remembered rows, masked store) and equality of their abstract summaries; new-group bookkeeping (trailing conditional block set on exactly the unseen rows, slices rebuilt from new widths, factors_with_new_levels per factor once). Not decided: the values inside the blocks. The zeroing discipline is decided on a per-case table (code = -1 / 0 / >0) computed by abstract interpretation, with alias/copy and freshness tracking; R10.7: the evaluation code of variables, calls and terms stores nothing at prediction (the policy is consulted by every evaluation). R10.8: a box over plain / unordered data takes its levels from the observed values (box obligations of R4.3).",
        'design_ref': 'DESIGN.md section 3, C10 (R10.1-R10.5); later rules: sections 7.6-7.17',
        'note': COMMON_NOTE,
        'technique': 'CFG region/dominance analysis of Config.__setattr__; literal-domain agreement; def-use identity of masks; sibling summary comparison; abstract evaluation of the new-group bookkeeping loop (shared model with C17); per-case abstract interpretation (code -1/0/>0) of the zeroing code with alias and freshness tracking; prediction-path write analysis',
    },
    {
        'property_id': 'C12',
        'text': "Grammar/table agreement and naming for Python expressions inside calls: the grammar extracted for C01, restricted to the operator kinds CallResolver accepts, is compared pairwise with Python's precedence and associativity (3 genuine divergences recorded as known findings: ** left-associative, unary sign above **, comparison chains left-nested); scanner lexeme -> token kind -> operator.<fn> -> printed symbol composes to the identity and each fn is Python's function for that operator; argument plumbing; {e} = I(e) and I is the identity; literal conversion (abstract evaluation of the scanner's number helpers: float exactly on the paths that consumed a '.'); name field coverage plus an injectivity detector; the operator printer's precedence table agrees with the extracted grammar (parentheses kept where needed; the defect found here was repaired in /repo). Not decided: numerical equality with eval(). R12.7: every data column a call mentions is found by the used-variables extractor. R12.8: the formula text reaches the scanner untouched. R12.9: a literal reaches the evaluation as the scanner built it (Literal / LazyValue store what they are given, visitLiteralExpr hands expr.value on, eval returns it).",
        'design_ref': 'DESIGN.md section 3, C12 (R12.1-R12.6); section 4 F10, F11; later rules: sections 7.6-7.17',
        'note': COMMON_NOTE,
        'technique': 'extracted-grammar vs reference-table comparison; three-table agreement; abstract interpretation of scanner helpers; AST structural rules',
    },
    {
        'property_id': 'C06',
        'text': 'Freeze-at-training discipline on the typed call graph of the prediction path: fit-once typestate of every registered stateful transform (data-tainted stores under a closed freshness guard, interprocedural), row-locality (every aggregate of the new frame on the path is guarded, allow-listed with a reason, or subset-closed validation; binary() and CategoricalBox.levels are known findings), remembered coding reused (no recoding / training step reachable), single holder per component at all 22 constructor sites, sibling agreement training<->prediction, every eval_new_data* result depends on the new frame. Not decided: the matrix identity itself (runtime relation). One holder per component also for a single operator application next to a surviving operand (`Model(self, self @ other)`). R6.9: no axis-less squeeze on the evaluation path (a one-row frame keeps its row axis; positive control on every run).',
        'design_ref': 'DESIGN.md section 3, C06 (R6.1-R6.6); section 4 F6-F9; later rules: sections 7.6-7.17',
        'note': COMMON_NOTE,
        'technique': 'closed-world type inference + typed call-graph reachability; intraprocedural taint with an aggregation catalogue; guard typestate (dominance/closure); ownership classification of constructor sites',
    },
    {
        'property_id': 'C07',
        'text': "Isolation as an effects property: every attribute write reachable from evaluate_new_data targets a fresh/under-construction object, a stateful transform under its fit-once regime, or the write-once transform slot; every in-place array/container mutation on that path and in the registry targets an object created in the same call (reaching definitions + freshness lattice); the inventory of long-lived state (module/class-level mutables, their writers, mutable defaults, global, memoisation decorators) is closed; fitted state is per instance; the caller's frame and namespace are never written (only new frames reach the design, on every path of every na_action; user-supplied encoding objects are written by their constructor only); a Model is built per design; no randomness and no set-order dependence of labels/columns. Not decided: numerical equality across histories (follows only if user functions are pure). Determinism across interpreter runs: containers filled in the iteration order of a set are followed through the program (nesting depth, typed call graph) and every order-sensitive use is reported (R7.7).",
        'design_ref': 'DESIGN.md section 3, C07 (R7.1-R7.7); later rules: sections 7.6-7.17',
        'note': COMMON_NOTE,
        'technique': 'effect analysis over the typed call graph; reaching definitions on the CFG + freshness lattice; who-may-write inventory with positive controls; interprocedural flow analysis of hash-ordered containers (nesting-depth lattice over the typed call graph)',
    },
    {
        'property_id': 'C15',
        'text': "Plumbing and independence clauses only: single-term guard of the response (CFG regions, cannot be bypassed), set_type before set_data and full coding for the response, y[level] plumbing parser -> resolver -> Variable.reference -> the guarded branch, non-interference (no predictor-side function reads .response; is_response read only by the y[level] branch and two misuse guards), response is None without one, prop columns/guards. NOT decided: the point-wise meaning of the response columns (runtime fact). R15.8: built-in helpers (prop, p, proportion) win over the caller's names (C11's R11.1/R11.2). R15.9: the full coding used for the response is the identity over the caller's level list with labels in the same order.",
        'design_ref': 'DESIGN.md section 3, C15 (R15.1-R15.6); later rules: sections 7.6-7.17',
        'note': COMMON_NOTE,
        'technique': 'CFG region/dominance checks; who-reads/who-writes inventory; path summaries of the extracted grammar for the subset notation',
    },
    {
        'property_id': 'C16',
        'text': "Synonymy, recomputation at prediction and guards: aliases bind one object in the statically extracted registry; T/S build the same CategoricalBox construction as C with Treatment/Sum, every option reaches the box and is read back; I is the identity; offset/prop prediction-time code uses the NEW frame (row count, column by name, re-evaluated call); misuse guards dominate effects; structural definition of binary / prop columns. binary() re-deriving its default and refusal from the new frame is a known finding. Not decided: point-wise values beyond these facts. R16.2 also covers the order in which the namespace list is built and consulted (C11's R11.1). R16.7: no dtype-narrowing store of real-valued blocks. R16.8: T(x, ref) / S(x, omit) code the requested level for every level value (default exactly under `is None`).",
        'design_ref': 'DESIGN.md section 3, C16 (R16.1-R16.6); section 4 F8; later rules: sections 7.6-7.17',
        'note': COMMON_NOTE,
        'technique': 'registry extraction; structural equality of constructions; CFG dominance of guards; taint/aggregate analysis restricted to helper functions',
    },
    {
        'property_id': 'C04',
        'text': 'Ordering, source and ownership clauses: an order algebra derives the major-to-minor column order at the sites that combine factors (get_interaction_matrix, the two reduce folds, itertools.product in labels/levels) and requires identical conventions; values and labels have one source (codes of the categorical whose categories were coded; labels read from the same contrast object; zero / -1 row index = removed label index); level lists are canonical unless declared; numeric identity through representation changes only; one holder per component; label order = stacking order. NOT decided: point-wise equality of a column with its data. New data: the rows returned for a categorical code are decided by an abstract interpretation of the slow path of eval_new_data_categoric over the three cases code = -1 / 0 / >0 (R4.8); a:b columns are plain element-wise products (R4.1).',
        'design_ref': 'DESIGN.md section 3, C04 (R4.1-R4.6); later rules: sections 7.6-7.17',
        'note': COMMON_NOTE,
        'technique': 'order algebra over loop nests / comprehensions / product / reduce / khatri_rao; def-use identity; order-kind lattice; ownership classification; per-case abstract interpretation of the unseen-level zeroing',
    },
    {
        'property_id': 'C05',
        'text': 'Block structure and ordering: factor-major Kronecker order at the training and prediction sites and in labels/groups (order algebra), complete indicators for the factor, trailing conditional new-group block, the reduced-iff rule as written, finite-state abstract interpretation of the implicit-intercept logic of `|` over all 4 states, every (effect, factor) pair formed, no effect object under two factors. NOT decided: rank/span on crossed data and whether the simplified coding rule equals the common-effects rule. R5.8: contrast obligations of the reduced / full codings (zero / -1 row at the position whose label is removed; default reference exactly under `is None`).',
        'design_ref': 'DESIGN.md section 3, C05 (R5.1-R5.6); later rules: sections 7.6-7.17',
        'note': COMMON_NOTE,
        'technique': 'order algebra; finite-state abstract interpretation of Model.__or__; abstract evaluation of the product operands and of the coding decision (truth table over opaque atoms); CFG must-pass; ownership classification',
    },
    {
        'property_id': 'C08',
        'text': 'Order- and label-independence clauses: canonical level order wherever levels or defaults are picked; permutation-invariant fitting (no positional row access or order-dependent operation on row-ordered values in transforms, registry functions and evaluation code; row-ordered taint that stops at order-invariant reductions); by-name column access only; irrelevant columns cut first and .index read only under len(); the row filter is the negated mask of the very frame it filters (decided on the abstract value of the frame handed to the design), never a label-based drop. Not decided: that pandas/numpy primitives are themselves equivariant; floating-point summation order. No evaluation code re-labels the index of a value (R8.4).',
        'design_ref': 'DESIGN.md section 3, C08 (R8.1-R8.5); later rules: sections 7.6-7.17',
        'note': COMMON_NOTE,
        'technique': 'row-ordered taint with reduction barrier; positional-access lint; reaching-definition identity; order-kind lattice; index-relabelling lint over all evaluation code',
    },
]
PENDING = "claimed in DESIGN.md; its check is not registered in this revision of /verif yet"
NOT_APPLICABLE = [
    {"property_id": "C03", "reason": "rank and column space of a data-dependent matrix are linear-algebra facts about runtime values; no sound static argument in reach bounds the patsy-style redundancy algorithm for every term family and order"},
    {"property_id": "C13", "reason": "rank, zero-sum and span of contrast matrices for every size/reference are algebraic identities over np.eye/vstack index arithmetic; deciding them needs evaluation or proof, not code shape (index agreement between matrix and labels is decided under C04, option plumbing under C16)"},
    {"property_id": "C14", "reason": "mean zero, unit deviation, partition of unity, orthonormality are numerical identities over all inputs; the only shape-level clause (parameters fitted once and frozen) is decided under C06"},
] + [{"property_id": p, "reason": PENDING} for p in []]

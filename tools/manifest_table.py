NOTES = (
    "Technique family: static analysis only. Every check re-parses /repo/formulae/**/*.py on each run and "
    "decides repository-specific rules on extracted program models; exit 2 + ANALYSIS-ERROR means the "
    "analysis itself is broken (anchor vanished, unmodelled idiom, instance count below floor). "
    "Set FORMULAE_SRC=<dir> to analyse another tree (used for seeded variants)."
)
COMMON_NOTE = (
    "Trusted base: CPython's ast module, the hand-written catalogue of numpy/pandas/itertools semantics in "
    "/verif/sa, Python's operator-dispatch and hashing rules. Closed world: only the shipped package is "
    "analysed (user transforms / user functions are assumed pure and fit-once). Each rule is a necessary "
    "condition of the property, not a sufficient one."
)
CHECKS = [
    {
        "property_id": "C01",
        "text": "The grammar the recursive-descent parser denotes is extracted from its source (fail-closed IR, "
        "symbolic path summaries of every production) and decided once for all strings: precedence/"
        "associativity soundness w.r.t. the documented table, delimiter pairing, AST fidelity (nothing "
        "parsed is dropped or swapped), end-of-input check, cursor-primitive contracts, scanner token "
        "table (injective, raising default, whitespace-only skips, one token per lexeme helper), tilde "
        "count guard and implicit intercept, grouping transparency, total visitors. Thorough: bounded "
        "exhaustive comparison of the extracted grammar model against an independent Pratt parser.",
        "design_ref": "DESIGN.md section 3, C01 (R1.1-R1.11)",
        "note": COMMON_NOTE,
        "technique": "grammar extraction by abstract interpretation of the parser source; path-summary rules; CFG dominance; token-table extraction",
    },
]
PENDING = "claimed in DESIGN.md; its check is not registered in this revision of /verif yet"
NOT_APPLICABLE = [
    {"property_id": "C03", "reason": "rank and column space of a data-dependent matrix are linear-algebra facts about runtime values; no sound static argument in reach bounds the patsy-style redundancy algorithm for every term family and order"},
    {"property_id": "C13", "reason": "rank, zero-sum and span of contrast matrices for every size/reference are algebraic identities over np.eye/vstack index arithmetic; deciding them needs evaluation or proof, not code shape (index agreement between matrix and labels is decided under C04, option plumbing under C16)"},
    {"property_id": "C14", "reason": "mean zero, unit deviation, partition of unity, orthonormality are numerical identities over all inputs; the only shape-level clause (parameters fitted once and frozen) is decided under C06"},
] + [{"property_id": p, "reason": PENDING} for p in ["C02", "C04", "C05", "C06", "C07", "C08", "C09", "C10", "C11", "C12", "C15", "C16", "C17"]]

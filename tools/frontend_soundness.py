#!/venv/bin/python
"""Tool validation (NOT one of the registered checks, and not how any property is decided): the front end of the analyser
(sa/desugar.py, the N0-N4 normalisation of sa/inline.py, the reference swap of sa/refswap.py) claims to preserve behaviour.
For every stored behaviour-preserving refactoring (benign/<id>/patch.diff with its equiv.py) this script
  1. applies the patch to a scratch copy of /repo,
  2. runs equiv.py on it (output A),
  3. loads the scratch copy as the analyser does (Program(..., normalise=True)), writes the NORMALISED module trees back as
     source, runs equiv.py again (output B) and the repository's test-suite,
and reports every case where B differs from A or a test fails.  A rewrite of the front end that changed behaviour - like the
two inliner bugs found in rounds 5 (DESIGN 7.14) - shows up here.  Run by hand after changing the front end.

usage: frontend_soundness.py [id-substring ...]   (scratch copies under a temporary directory, removed afterwards)
"""
import ast
import concurrent.futures as cf
import glob
import json
import os
import re
import shutil
import subprocess
import sys
import tempfile

HERE = os.path.dirname(os.path.abspath(__file__))
VERIF = os.path.dirname(HERE)
PY = "/venv/bin/python"
WORKER = r'''
import ast, os, sys
sys.path.insert(0, %(verif)r)
os.environ["FORMULAE_SRC"] = %(tmp)r
from sa.core import Program
from sa import canon as C
from sa import refswap
C.KEEP_MESSAGES = True
# helpers that were inlined are normally dropped from the model; other modules may still import them, so keep them here
refswap._drop_dead_helpers = lambda *a, **k: []
# helpers that only raise are replaced by `raise E(<the call's arguments>)`: class and position are kept, the message TEXT is not
# (no rule reads it), so the emitted source would print other messages - switched off here
from sa import inline as _inline
_inline.Inliner.raising_helpers = lambda self: None
prog = Program(%(tmp)r)
for m in prog.modules.values():
    ast.fix_missing_locations(m.tree)
    with open(m.path, "w") as fh:
        fh.write(ast.unparse(m.tree) + "\n")
print("normalised", len(prog.modules), "modules; inlined", len(getattr(prog, "inlined", [])), "swapped", len(getattr(prog, "swapped", [])))
'''


def run_equiv(tmp, script):
    r = subprocess.run([PY, script], cwd=tmp, env=dict(os.environ, PYTHONPATH=tmp, PYTHONHASHSEED="0"), capture_output=True, text=True, timeout=1200)
    # `sorted()` over a set that holds NaN: the set's order depends on id(nan), so the operand order in this message differs
    # between two runs of the SAME tree (seen with benign/C09-b1-2)
    out = re.sub(r"between instances of '(\w+)' and '(\w+)'", lambda m: "between instances of " + "/".join(sorted(m.groups())), r.stdout)
    return r.returncode, out


def one(d):
    ident = os.path.basename(d)
    patch, script = os.path.join(d, "patch.diff"), os.path.join(d, "equiv.py")
    if not (os.path.exists(patch) and os.path.exists(script)):
        return ident, "skipped", "no patch.diff / equiv.py"
    tmp = tempfile.mkdtemp(prefix="fe_sound_")
    try:
        shutil.copytree("/repo/formulae", os.path.join(tmp, "formulae"), ignore=shutil.ignore_patterns("__pycache__"))
        shutil.copytree("/repo/tests", os.path.join(tmp, "tests"), ignore=shutil.ignore_patterns("__pycache__"))
        r = subprocess.run(["patch", "-p1", "-s", "-d", tmp, "-i", patch], capture_output=True, text=True)
        if r.returncode:
            return ident, "skipped", "patch does not apply"
        # equiv scripts mention the sub-agent's worktree path in a few places: run a copy with the path replaced
        src = open(script).read()
        src = re.sub(r"/tmp/agents/b\d?_?C\d\d", tmp, src)
        sc = os.path.join(tmp, "equiv_copy.py")
        open(sc, "w").write(src)
        ca, a = run_equiv(tmp, sc)
        w = subprocess.run([PY, "-c", WORKER % dict(verif=VERIF, tmp=tmp)], capture_output=True, text=True, timeout=600)
        if w.returncode:
            return ident, "FAILED", "normalisation crashed: " + (w.stdout + w.stderr)[-300:]
        cb, b = run_equiv(tmp, sc)
        t = subprocess.run([PY, "-m", "pytest", "-q", "-p", "no:cacheprovider", "-x", "--tb=line", "-W", "ignore",
                            "--deselect", "tests/test_poly.py::test_basic", "--deselect", "tests/test_poly.py::test_degree", "tests"],
                           cwd=tmp, env=dict(os.environ, PYTHONPATH=tmp), capture_output=True, text=True, timeout=1200)
        tests_ok = t.returncode == 0
        if a != b or ca != cb:
            al, bl = a.splitlines(), b.splitlines()
            diff = next(((x, y) for x, y in zip(al, bl) if x != y), (f"{len(al)} lines", f"{len(bl)} lines"))
            return ident, "FAILED", f"equiv output differs after normalisation (exit {ca}->{cb}): {diff[0][:160]!r} vs {diff[1][:160]!r}; tests_ok={tests_ok}"
        if not tests_ok:
            return ident, "FAILED", "tests fail on the normalised tree: " + t.stdout[-300:]
        return ident, "ok", w.stdout.strip()[-120:]
    except Exception as e:  # noqa: BLE001
        return ident, "FAILED", f"{type(e).__name__}: {e}"
    finally:
        shutil.rmtree(tmp, ignore_errors=True)


if __name__ == "__main__":
    dirs = sorted(glob.glob(os.path.join(VERIF, "benign", "*")))
    only = sys.argv[1:]
    if only:
        dirs = [d for d in dirs if any(o in d for o in only)]
    bad = 0
    with cf.ThreadPoolExecutor(int(os.environ.get("FE_JOBS", "12"))) as ex:
        for ident, status, detail in ex.map(one, dirs):
            if status != "ok":
                print(f"{status:8s} {ident}: {detail}")
            if status == "FAILED":
                bad += 1
    print(f"{len(dirs)} refactorings, {bad} FAILED")
    sys.exit(1 if bad else 0)

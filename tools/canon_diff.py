#!/usr/bin/env python3
"""Show, for a patch, the functions whose canonical form still differs from the reference (unified diff of canon forms)."""
import difflib, os, subprocess, sys, tempfile
sys.path.insert(0, os.path.dirname(os.path.dirname(os.path.abspath(__file__))))
patch = os.path.abspath(sys.argv[1])
wt = tempfile.mkdtemp(prefix="cd_"); os.rmdir(wt)
subprocess.run(["git", "-C", "/repo", "worktree", "add", "-f", wt, "HEAD"], capture_output=True)
try:
    r = subprocess.run(["git", "-C", wt, "apply", patch], capture_output=True, text=True)
    if r.returncode:
        print("patch does not apply", r.stderr); sys.exit(1)
    os.environ["FORMULAE_SRC"] = wt
    from sa.core import Program
    from sa.canon import canon
    from sa import refswap
    cur = Program(wt)
    ref = Program(refswap.REF_ROOT, normalise=False)
    print("inlined:", sorted(set(cur.inlined)))
    print("swapped:", cur.swapped)
    print("dropped:", cur.dropped_helpers)
    for q in cur.differing:
        a = canon(ref.functions[q].node).splitlines()
        b = canon(cur.functions[q].node).splitlines()
        print("=== DIFFERS", q)
        for l in difflib.unified_diff(a, b, "reference", "current", lineterm="", n=1):
            print("   ", l)
finally:
    subprocess.run(["git", "-C", "/repo", "worktree", "remove", "--force", wt], capture_output=True)

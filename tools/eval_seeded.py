#!/usr/bin/env python3
"""Evaluate a candidate breaking change (patch.diff + demo.py) against the real code and against the checks.

usage: eval_seeded.py <dir with patch.diff and demo.py> [--props C01,C02,...] [--no-tests]

Steps (all in a scratch git worktree of /repo under /tmp, removed afterwards):
  1. demo.py on the clean tree must exit 0
  2. patch applies; package compiles
  3. baseline test suite still passes (135 stable tests)
  4. demo.py on the patched tree must exit non-zero
  5. every registered quick check is run with FORMULAE_SRC=<patched tree>; reports which fire and which rules
Prints a JSON summary on the last line.
"""
import json
import os
import subprocess
import sys
import tempfile
import xml.etree.ElementTree as ET

VERIF = os.path.dirname(os.path.dirname(os.path.abspath(__file__)))
ALL = ["C01", "C02", "C04", "C05", "C06", "C07", "C08", "C09", "C10", "C11", "C12", "C15", "C16", "C17"]


def sh(cmd, **kw):
    return subprocess.run(cmd, capture_output=True, text=True, **kw)


def run_tests(tree):
    base = json.load(open("/root/.vp/BASELINE.json"))
    with tempfile.TemporaryDirectory() as d:
        x = os.path.join(d, "j.xml")
        sh(["/venv/bin/python", "-m", "pytest", "-q", "-p", "no:cacheprovider", "--timeout=900", "--continue-on-collection-errors",
            f"--junitxml={x}"], cwd=tree, env=dict(os.environ, PYTHONPATH=tree))
        try:
            t = ET.parse(x)
        except Exception:
            return ["<no junit output>"]
    passed = set()
    for tc in t.iter("testcase"):
        if not any(c.tag in ("failure", "error", "skipped") for c in tc):
            passed.add(f"{tc.get('classname')}::{tc.get('name')}")
    return [s for s in base["stable_pass"] if s not in passed]


def main():
    d = os.path.abspath(sys.argv[1])
    props = ALL
    do_tests = "--no-tests" not in sys.argv
    for a in sys.argv[2:]:
        if a.startswith("--props"):
            props = a.split("=", 1)[1].split(",")
    patch = os.path.join(d, "patch.diff")
    demo = os.path.join(d, "demo.py")
    wt = tempfile.mkdtemp(prefix="evalwt_")
    os.rmdir(wt)
    out = {"dir": d}
    try:
        r = sh(["git", "-C", "/repo", "worktree", "add", "-f", wt, "HEAD"])
        if r.returncode:
            print(r.stderr)
            sys.exit(2)
        env = dict(os.environ, PYTHONPATH=wt)
        if os.path.exists(demo):
            r = sh(["/venv/bin/python", demo], cwd=wt, env=env, timeout=600)
            out["demo_clean_exit"] = r.returncode
        r = sh(["git", "-C", wt, "apply", patch])
        out["patch_applies"] = r.returncode == 0
        if r.returncode:
            out["apply_error"] = r.stderr[:300]
            print(json.dumps(out))
            return
        r = sh(["/venv/bin/python", "-c", "import formulae, sys; print(formulae.__file__)"], cwd=wt, env=env)
        out["imports"] = r.returncode == 0 and wt in r.stdout
        if do_tests:
            out["baseline_missing"] = run_tests(wt)
        if os.path.exists(demo):
            r = sh(["/venv/bin/python", demo], cwd=wt, env=env, timeout=600)
            out["demo_patched_exit"] = r.returncode
            out["demo_patched_tail"] = (r.stdout + r.stderr).strip().splitlines()[-2:]
        fired = {}
        errors = {}
        for p in props:
            r = sh(["/venv/bin/python", os.path.join(VERIF, "check.py"), p, "--tier", "quick"],
                   env=dict(os.environ, FORMULAE_SRC=wt, VERIF_EVIDENCE_DIR=os.path.join(wt, ".ev")), timeout=600)
            if r.returncode == 1:
                rules = sorted({ln.split("  ")[2] for ln in r.stdout.splitlines() if ln.startswith("  formulae") and len(ln.split("  ")) > 3})
                fired[p] = rules
            elif r.returncode == 2:
                errors[p] = [ln for ln in r.stdout.splitlines() if "ANALYSIS-ERROR" in ln][-1:][0][:300] if "ANALYSIS-ERROR" in r.stdout else r.stdout[-300:]
        out["checks_fired"] = fired
        out["analysis_errors"] = errors
    finally:
        sh(["git", "-C", "/repo", "worktree", "remove", "--force", wt])
    print(json.dumps(out))


if __name__ == "__main__":
    main()

#!/usr/bin/env python3
"""Regenerates /verif/MANIFEST.json from the table below (kept in one place so it stays valid)."""
import json, os, sys
HERE = os.path.dirname(os.path.dirname(os.path.abspath(__file__)))
sys.path.insert(0, HERE)
from tools.manifest_table import CHECKS, NOT_APPLICABLE, NOTES

base = json.load(open("/root/.vp/BASELINE.json"))
m = {
    "version": 1,
    "setup_cmd": "true",
    "hooks": {
        "guard": "FORMULAE_VERIF",
        "enable": "none - the checks read /repo's source only (ast); no instrumentation was added to /repo",
        "baseline_off_cmd": "cd /repo && /venv/bin/python -m pytest -ra -q -p no:cacheprovider --timeout=900 --continue-on-collection-errors",
        "source_commits": [],
        "add_only": True,
    },
    "engines": [
        {
            "name": "sa",
            "path": "/verif/sa",
            "serves_properties": [c["property_id"] for c in CHECKS],
            "kind_free_text": "repository-specific static analysis on Python ast: symbol table, typed call graph, "
            "statement CFG with dominators, def-use/taint, effect summaries, extracted grammar / token table / "
            "operator-dispatch table; nothing from /repo is imported or executed",
        }
    ],
    "checks": [],
    "notes": NOTES,
    "not_applicable": NOT_APPLICABLE,
}
for c in CHECKS:
    pid = c["property_id"]
    m["checks"].append(
        {
            "property_id": pid,
            "quick_cmd": f"/venv/bin/python check.py {pid} --tier quick",
            "thorough_cmd": f"/venv/bin/python check.py {pid} --tier thorough",
            "evidence_file": f"/verif/evidence/{pid}.json",
            "replay_cmd_template": f"/venv/bin/python check.py {pid} --explain {{path}}",
            "engine": "sa",
            "level_claimed": {"category": "other", "text": c["text"], "design_ref": c["design_ref"]},
            "level_note": c["note"],
            "technique": c["technique"],
        }
    )
json.dump(m, open(os.path.join(HERE, "MANIFEST.json"), "w"), indent=1)
print("wrote MANIFEST.json with", len(m["checks"]), "checks,", len(NOT_APPLICABLE), "not applicable")

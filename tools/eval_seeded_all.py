#!/usr/bin/env python3
"""Run tools/eval_seeded.py on every <R_ROOT>/<prop>/<1-3>/ (patch.diff + demo.py) in parallel; one line per change.
usage: R_ROOT=/tmp/agents/out4 eval_seeded_all.py [comma separated filters]"""
import concurrent.futures as cf, glob, json, os, subprocess, sys
dirs = sorted(d for d in glob.glob(os.environ.get('R_ROOT','/tmp/agents/out2')+'/C*/[123]') if os.path.exists(d+'/patch.diff'))
if len(sys.argv)>1: dirs=[d for d in dirs if any(o in d for o in sys.argv[1].split(','))]
def run(d):
    r = subprocess.run(['python3','/verif/tools/eval_seeded.py',d],capture_output=True,text=True,timeout=3000)
    try: return d, json.loads(r.stdout.strip().splitlines()[-1])
    except Exception as e: return d, {'error': str(e), 'out': r.stdout[-300:], 'err': r.stderr[-300:]}
with cf.ThreadPoolExecutor(6) as ex:
    for d,res in ex.map(run, dirs):
        key='/'.join(d.split('/')[-2:]); own=key.split('/')[0]
        fired=res.get('fired') or res.get('checks_fired') or {}
        print(key, 'clean',res.get('demo_clean_exit'),'applies',res.get('patch_applies'),'imports',res.get('imports'),'missing',len(res.get('baseline_missing') or []),'demo',res.get('demo_patched_exit'), '| own fires:', own in fired, '| fired:', json.dumps(fired)[:300], res.get('error',''), '| AE:', json.dumps(res.get('analysis_errors') or {})[:200])

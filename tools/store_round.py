#!/usr/bin/env python3
"""Store one round of sub-agent results in /verif (run by hand, once per round, after everything was re-verified):
  store_round.py seeded <out dir> <round tag, e.g. r6> <first-pass eval file> "<origin text>"
  store_round.py benign <out dir> <round tag, e.g. b6> <first-pass eval file> "<kind text>"
A breaking change is stored as seeded/<P>-<tag>-<n>/ (patch.diff, demo.py, notes.md, meta.json), a refactoring as
benign/<P>-<tag>-<n>/ (patch.diff, equiv.py, notes.md, meta.json).  The eval tools are re-run on the stored copy."""
import glob
import json
import os
import re
import shutil
import subprocess
import sys

VERIF = os.path.dirname(os.path.dirname(os.path.abspath(__file__)))


def first_pass(path):
    out = {}
    for line in open(path):
        m = re.match(r"(C\d\d/\d) (.*)", line.strip())
        if m:
            out[m.group(1)] = m.group(2)
    return out


def main():
    mode, root, tag, fp, text = sys.argv[1:6]
    fpm = first_pass(fp)
    import concurrent.futures as cf
    dirs = sorted(glob.glob(os.path.join(root, "C*", "[1-9]")))
    with cf.ThreadPoolExecutor(8) as ex:
        list(ex.map(lambda d: one(mode, d, tag, fpm, text), dirs))


def one(mode, d, tag, fpm, text):
    if True:
        prop, n = d.split("/")[-2:]
        ident = f"{prop}-{tag}-{n}"
        if not os.path.exists(os.path.join(d, "patch.diff")):
            return
        if os.path.exists(os.path.join(VERIF, mode, ident, "meta.json")) and "--redo" not in sys.argv:
            return
        if mode == "seeded":
            dst = os.path.join(VERIF, "seeded", ident)
            os.makedirs(dst, exist_ok=True)
            for f in ("patch.diff", "demo.py", "notes.md"):
                if os.path.exists(os.path.join(d, f)):
                    shutil.copy(os.path.join(d, f), os.path.join(dst, f))
            r = subprocess.run(["python3", os.path.join(VERIF, "tools", "eval_seeded.py"), dst], capture_output=True, text=True)
            res = json.loads(r.stdout.strip().splitlines()[-1])
            fired = res.get("checks_fired") or {}
            notes = open(os.path.join(dst, "notes.md")).read() if os.path.exists(os.path.join(dst, "notes.md")) else ""
            first = fpm.get(f"{prop}/{n}", "")
            meta = {
                "id": ident, "property": prop, "origin": text,
                "needs_to_manifest": "see notes.md (written by the sub-agent): " + " ".join(notes.split())[:420],
                "verified_by_me": {"command": f"python3 /verif/tools/eval_seeded.py /verif/seeded/{ident}",
                                   "demo_on_clean_tree_exit": res.get("demo_clean_exit"), "patch_applies": res.get("patch_applies"),
                                   "baseline_135_stable_tests_still_pass": not res.get("baseline_missing"),
                                   "demo_on_patched_tree_exit": res.get("demo_patched_exit")},
                "checks_that_fire_on_it": fired,
                "caught_by_own_property_check_before_strengthening": "own fires: True" in first,
                "first_pass": first[:600],
                "caught_by_own_property_check_now": prop in fired,
            }
            if prop not in fired and fired:
                meta["replay_props"] = sorted(fired)
            json.dump(meta, open(os.path.join(dst, "meta.json"), "w"), indent=1)
            print(ident, "own" if prop in fired else ("other " + ",".join(sorted(fired)) if fired else "NOT CAUGHT"), res.get("analysis_errors") or "")
        else:
            dst = os.path.join(VERIF, "benign", ident)
            os.makedirs(dst, exist_ok=True)
            for f in ("patch.diff", "equiv.py", "notes.md"):
                if os.path.exists(os.path.join(d, f)):
                    shutil.copy(os.path.join(d, f), os.path.join(dst, f))
            r = subprocess.run(["python3", os.path.join(VERIF, "tools", "eval_benign.py"), dst], capture_output=True, text=True)
            res = json.loads(r.stdout.strip().splitlines()[-1])
            notes = open(os.path.join(dst, "notes.md")).read() if os.path.exists(os.path.join(dst, "notes.md")) else ""
            title = next((l.strip("# ").strip() for l in notes.splitlines() if l.strip()), "")
            meta = {"id": ident, "origin_property": prop, "kind": text, "title": title[:200],
                    "expect": "silent" if not res.get("new_alarms") else "ALARM-UNRESOLVED",
                    "first_evaluation_before_any_adjustment": fpm.get(f"{prop}/{n}", "")[:700]}
            json.dump(meta, open(os.path.join(dst, "meta.json"), "w"), indent=1)
            print(ident, meta["expect"])


if __name__ == "__main__":
    main()

#!/usr/bin/env python3
"""(Re)generate sa/reference_inventory.json from the CURRENT /repo tree (run after a fix: commit in /repo)."""
import os, sys
sys.path.insert(0, os.path.dirname(os.path.dirname(os.path.abspath(__file__))))
from sa.core import Program
from sa import inline
p = Program(normalise=False)
inv = inline.write_inventory(p)
print({k: len(v) for k, v in inv.items()})
import shutil
dst = os.path.join(os.path.dirname(os.path.dirname(os.path.abspath(__file__))), "sa", "reference_src")
shutil.rmtree(dst, ignore_errors=True)
shutil.copytree(os.path.join(p.root, "formulae"), os.path.join(dst, "formulae"), ignore=shutil.ignore_patterns("__pycache__"))
print("reference sources copied to", dst)

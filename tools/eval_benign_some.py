#!/usr/bin/env python3
"""eval_benign.py on a few directories in parallel, compact output: eval_benign_some.py <root> <case> [<case> ...]   (case = C04/1)"""
import concurrent.futures as cf, json, subprocess, sys, os
root, cases = sys.argv[1], sys.argv[2:]
def run(c):
    r = subprocess.run(["python3", os.path.join(os.path.dirname(os.path.abspath(__file__)), "eval_benign.py"), os.path.join(root, c)], capture_output=True, text=True)
    try:
        return c, json.loads(r.stdout.strip().splitlines()[-1])
    except Exception as e:
        return c, {"new_alarms": {"?": {"new": [[str(e), r.stderr[-200:]]]}}}
with cf.ThreadPoolExecutor(7) as ex:
    for c, d in ex.map(run, cases):
        print(c, "SILENT" if not d["new_alarms"] else "")
        for p, v in d["new_alarms"].items():
            for x in v["new"][:4]:
                print("   ", p, str(x)[:330])

#!/venv/bin/python
"""Tool validation (NOT one of the registered checks, and not how any property is decided): the canonicaliser of
sa/canon.py claims to preserve behaviour.  This script replaces every top-level function and method of a scratch copy
of /repo/formulae by its canonical form (messages kept) and runs the repository's own test-suite on the copy.  A
canonical rewrite that changed behaviour would most likely fail a test.  Run by hand after changing sa/canon.py.

usage: canon_soundness.py            (scratch copy under a temporary directory, removed afterwards)
"""
import ast
import os
import shutil
import subprocess
import sys
import tempfile

HERE = os.path.dirname(os.path.abspath(__file__))
sys.path.insert(0, os.path.dirname(HERE))
from sa import canon as C  # noqa: E402
from sa.core import Program  # noqa: E402

C.KEEP_MESSAGES = True
tmp = tempfile.mkdtemp(prefix="canon_sound_")
try:
    shutil.copytree("/repo/formulae", os.path.join(tmp, "formulae"))
    shutil.copytree("/repo/tests", os.path.join(tmp, "tests"))
    for extra in ("setup.py", "setup.cfg", "pyproject.toml", "conftest.py", "requirements.txt", "README.md"):
        if os.path.exists(os.path.join("/repo", extra)):
            shutil.copy(os.path.join("/repo", extra), tmp)
    prog = Program(tmp, normalise=False)
    n = 0
    for m in prog.modules.values():
        class T(ast.NodeTransformer):
            def visit_FunctionDef(self, node):
                global n
                new = C.canon_node(node)
                n += 1
                return new

            def visit_ClassDef(self, node):
                node.body = [self.visit(x) if isinstance(x, ast.FunctionDef) else x for x in node.body]
                return node

        tree = m.tree
        tree.body = [T().visit(x) if isinstance(x, (ast.FunctionDef, ast.ClassDef)) else x for x in tree.body]
        ast.fix_missing_locations(tree)
        with open(m.path, "w") as fh:
            fh.write(ast.unparse(tree) + "\n")
    print(f"{n} functions replaced by their canonical form in {tmp}")
    r = subprocess.run(["/venv/bin/python", "-m", "pytest", "-q", "-p", "no:cacheprovider", "--tb=short", "-W", "ignore", "tests"], cwd=tmp,
                       env=dict(os.environ, PYTHONPATH=tmp), capture_output=True, text=True)
    print(r.stdout[-12000:])
    print(r.stderr[-1500:])
    sys.exit(r.returncode)
finally:
    shutil.rmtree(tmp, ignore_errors=True)

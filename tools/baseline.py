#!/usr/bin/env python3
"""Run the repository's pinned test suite and compare with /root/.vp/BASELINE.json (135 stable tests)."""
import json, subprocess, sys, tempfile, os, xml.etree.ElementTree as ET
root = sys.argv[1] if len(sys.argv) > 1 else "/repo"
base = json.load(open("/root/.vp/BASELINE.json"))
with tempfile.TemporaryDirectory() as d:
    x = os.path.join(d, "j.xml")
    subprocess.run(["/venv/bin/python", "-m", "pytest", "-ra", "-q", "-p", "no:cacheprovider", "--timeout=900",
                    "--continue-on-collection-errors", f"--junitxml={x}"], cwd=root, stdout=subprocess.DEVNULL, stderr=subprocess.DEVNULL)
    t = ET.parse(x)
passed = set()
for tc in t.iter("testcase"):
    if not any(c.tag in ("failure", "error", "skipped") for c in tc):
        passed.add(f"{tc.get('classname')}::{tc.get('name')}")
missing = [s for s in base["stable_pass"] if s not in passed]
print(f"baseline: {len(base['stable_pass']) - len(missing)}/{len(base['stable_pass'])} stable tests pass; missing={missing}")
sys.exit(1 if missing else 0)

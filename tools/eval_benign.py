#!/usr/bin/env python3
"""Run all quick checks on a behaviour-preserving refactoring (patch.diff): report NEW violations / analysis errors
relative to the same tree without the patch.  usage: eval_benign.py <dir with patch.diff> [base commit]"""
import json, os, subprocess, sys, tempfile
VERIF = os.path.dirname(os.path.dirname(os.path.abspath(__file__)))
ALL = ["C01", "C02", "C04", "C05", "C06", "C07", "C08", "C09", "C10", "C11", "C12", "C15", "C16", "C17"]

def sh(cmd, **kw):
    return subprocess.run(cmd, capture_output=True, text=True, **kw)

def run_checks(tree):
    out = {}
    for p in ALL:
        r = sh(["/venv/bin/python", os.path.join(VERIF, "check.py"), p, "--tier", "quick"],
               env=dict(os.environ, FORMULAE_SRC=tree, VERIF_EVIDENCE_DIR=os.path.join(tree, ".ev")), timeout=600)
        lines = set()
        for ln in r.stdout.splitlines():
            if ln.startswith("  formulae"):
                parts = ln.split("  ")
                lines.add((parts[2], parts[3], parts[4][:80]) if len(parts) > 4 else (ln,))
            if "ANALYSIS-ERROR" in ln:
                lines.add(("ANALYSIS-ERROR", ln[:260]))
        out[p] = (r.returncode, lines)
    return out

def main():
    d = os.path.abspath(sys.argv[1])
    patch = os.path.join(d, "patch.diff")
    bases = [sys.argv[2]] if len(sys.argv) > 2 else ["HEAD", "1f9bc31"]
    for base in bases:
        wt = tempfile.mkdtemp(prefix="evalb_"); os.rmdir(wt)
        try:
            sh(["git", "-C", "/repo", "worktree", "add", "-f", wt, base])
            if sh(["git", "-C", wt, "apply", "--check", patch]).returncode != 0:
                continue
            before = run_checks(wt)
            sh(["git", "-C", wt, "apply", patch])
            imp = sh(["/venv/bin/python", "-c", "import formulae"], cwd=wt, env=dict(os.environ, PYTHONPATH=wt)).returncode == 0
            after = run_checks(wt)
            new = {}
            for p in ALL:
                diff = after[p][1] - before[p][1]
                if diff or after[p][0] > before[p][0]:
                    new[p] = {"exit": after[p][0], "new": sorted(diff)[:4]}
            print(json.dumps({"dir": d, "base": base, "imports": imp, "new_alarms": new}))
            return
        finally:
            sh(["git", "-C", "/repo", "worktree", "remove", "--force", wt])
    print(json.dumps({"dir": d, "error": "patch applies to none of " + str(bases)}))

if __name__ == "__main__":
    main()

#!/usr/bin/env python3
"""Run eval_benign.py on every <root>/<prop>/<i>/patch.diff in parallel; print one line per patch."""
import concurrent.futures as cf
import glob
import json
import os
import subprocess
import sys

root = sys.argv[1] if len(sys.argv) > 1 else "/tmp/agents/outb"
only = sys.argv[2].split(",") if len(sys.argv) > 2 else None
dirs = sorted(d for d in glob.glob(os.path.join(root, "*", "*")) if os.path.exists(os.path.join(d, "patch.diff")))
if only:
    dirs = [d for d in dirs if any(o in d for o in only)]


def run(d):
    r = subprocess.run(["python3", os.path.join(os.path.dirname(os.path.abspath(__file__)), "eval_benign.py"), d],
                       capture_output=True, text=True, timeout=3000)
    try:
        return d, json.loads(r.stdout.strip().splitlines()[-1])
    except Exception as e:  # noqa: BLE001
        return d, {"error": f"{e}: {r.stdout[-200:]} {r.stderr[-200:]}"}


silent = 0
with cf.ThreadPoolExecutor(8) as ex:
    for d, res in ex.map(run, dirs):
        key = "/".join(d.split("/")[-2:])
        na = res.get("new_alarms")
        if na == {}:
            silent += 1
            print(key, res.get("base"), "SILENT")
        elif na is None:
            print(key, "ERR", res.get("error"))
        else:
            print(key, res.get("base"), "ALARM", json.dumps(na)[:1500])
print(f"{silent}/{len(dirs)} silent")
